(* Correspondence runners for C11 (client handshake).
   check_c11: ClientOption.RequestHeader, the key the client sent, the parsed response and the
     implementation's verdict (connection or error, Conn.SubProtocol) against client_handshake.
   check_c11_req: the request the client put on the wire (parsed by net/http) against client_request:
     every header of the model's map is on the wire with that value, and the key is the base64 of the
     16 bytes it decodes to (x, y = the two big-endian halves). *)
From Gws Require Import Lib.Base Lib.Val Lib.Text Model.Handshake Corr.CheckC10.

(* case = VL [request header; key; status; response headers; accepted?; Conn.SubProtocol()] *)
Definition check_c11 (c : val) : bool :=
  let rh := vpairs (vget 0 c) in
  let key := vb (vget 1 c) in
  let rs := {| rs_status := vn (vget 2 c); rs_headers := vpairs (vget 3 c) |} in
  match client_handshake key rh rs with
  | CAccepted sub => vbool (vget 4 c) && bytes_eqb sub (vb (vget 5 c))
  | CRejected _ => negb (vbool (vget 4 c))
  end.

(* case = VL [request header; pmd enabled?; genRequestHeader(); x; y; wire headers] *)
Definition check_c11_req (c : val) : bool :=
  let rh := vpairs (vget 0 c) in
  let pmd := if vbool (vget 1 c) then Some (vb (vget 2 c)) else None in
  let wire := vpairs (vget 5 c) in
  let m := client_request rh pmd (vn (vget 3 c)) (vn (vget 4 c)) in
  forallb (fun kv => bytes_eqb (hget wire (fst kv)) (snd kv)) m
  && bytes_eqb (hget wire K_key) (gen_key (vn (vget 3 c)) (vn (vget 4 c))).
