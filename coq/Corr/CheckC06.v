(* Correspondence for locally requested closes: case = VL [code; reason; wire_body] *)
From Gws Require Import Lib.Base Lib.Val Model.CloseCode.
Local Open Scope N_scope.
Definition check_c06local (c : val) : bool :=
  bytes_eqb (local_close_body (vn (vget 0 c)) (vb (vget 1 c))) (vb (vget 2 c)).

(* closes caused by a transport read error: case = VL [reading; status the statement expects; error text; wire_body] *)
Definition check_c06err (c : val) : bool :=
  let reading := negb (vn (vget 0 c) =? 0) in
  bytes_eqb (error_close_body reading EOther (vb (vget 2 c))) (vb (vget 3 c))
  && (emit_error_status reading EOther =? vn (vget 1 c)).
