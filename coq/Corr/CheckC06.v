(* Correspondence for locally requested closes: case = VL [code; reason; wire_body] *)
From Gws Require Import Lib.Base Lib.Val Model.CloseCode.
Local Open Scope N_scope.
Definition check_c06local (c : val) : bool :=
  bytes_eqb (local_close_body (vn (vget 0 c)) (vb (vget 1 c))) (vb (vget 2 c)).
