(* Correspondence runners for C17: the window contents the implementation shows after a write must be
   the model's, step by step (check_c17_step) and over whole histories (check_c17_hist). *)
From Gws Require Import Lib.Base Lib.Val Model.Window.

(* case = VL [cap; enabled; dict_before; chunk; dict_after; size_after] : one Write on the state
   (enabled, dict_before, cap) *)
Definition check_c17_step (c : val) : bool :=
  let w := mkWindow (vbool (vget 1 c)) (vb (vget 2 c)) (vnat (vget 0 c)) in
  match sw_write w (vb (vget 3 c)) with
  | Some w' => bytes_eqb (sw_dict w') (vb (vget 4 c)) && (sw_size w' =? vnat (vget 5 c))
  | None => false
  end.

(* dict after every write of a history, None if the model panics *)
Fixpoint sw_trace (w : window) (ps : list val) : option (list (list N)) :=
  match ps with
  | [] => Some []
  | p :: r => w' <- sw_write w (vb p) ;; t <- sw_trace w' r ;; Some (sw_dict w' :: t)
  end.

(* case = VL [bits (VZ; negative = disabled zero-value window); VL chunks; VL dicts_after_each_write] *)
Definition check_c17_hist (c : val) : bool :=
  let bits := vz (vget 0 c) in
  let w0 := if (bits <? 0)%Z then sw_disabled else sw_init (Z.to_nat bits) in
  match sw_trace w0 (vl (vget 1 c)) with
  | Some t => list_eqb bytes_eqb t (map vb (vl (vget 2 c)))
  | None => false
  end.
