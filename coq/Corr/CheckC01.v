(* Correspondence for the end-to-end composition (C01, C02): the same history of sends is run through the sender model
   (Model/EndToEnd.v over the real window model) and the receiver model, and compared with what the two real gws
   endpoints put on the wire / delivered / hold in their windows.
   case = VL [ sender cfg (server pmd threshold wlimit utf8); receiver cfg (limit utf8); cap; window_before;
               VL [ VL [op; VL slices; key; dout] ... ]; wire; VL delivered [ VL [0; op; payload] ...];
               sender window after; receiver window after ] *)
From Gws Require Import Lib.Base Lib.Val Spec.Rfc6455 Model.Header Model.Writer Model.Reader Model.Window Model.EndToEnd Model.Utf8 Corr.CheckC03.
Local Open Scope N_scope.

Definition mkwin (cap : nat) (d : list N) : window :=
  if (cap =? 0)%nat then sw_disabled else {| sw_enabled := true; sw_dict := d; sw_size := cap |}.

(* run the sender op by op, each with the compressed bytes observed for it *)
Fixpoint send_ops (c : wcfg) (w : window) (ops : list val) : option (list N * window * list val) :=
  match ops with
  | [] => Some ([], w, [])
  | o :: r =>
      let op := vn (vget 0 o) in let slices := map vb (vl (vget 1 o)) in let key := vb (vget 2 o) in let dout := vb (vget 3 o) in
      match send_one Utf8.utf8_valid (fun _ _ => dout ++ flate_tail4) c w op slices key with
      | (Some fr, w', WOk) =>
          (* inflate table entry for the receiver: (dictionary, compressed ++ tail) -> payload *)
          let entry := VL [VB (sw_dict w); VB (dout ++ flate_tail9); VN 1; VB (concat slices)] in
          match send_ops c w' r with
          | Some (bs, w'', tbl) => Some (fr ++ bs, w'', (if is_compressed_frame fr then [entry] else []) ++ tbl)
          | None => None
          end
      | _ => None
      end
  end.

Definition check_c01 (c : val) : bool :=
  let sv := vget 0 c in
  let scfg := {| w_server := vbool (vget 0 sv); w_pmd := vbool (vget 1 sv); w_threshold := vz (vget 2 sv);
                 w_wlimit := vz (vget 3 sv); w_utf8 := vbool (vget 4 sv) |} in
  let rv := vget 1 c in
  let rcfg0 := {| r_server := negb (vbool (vget 0 sv)); r_pmd := vbool (vget 1 sv); r_limit := vz (vget 0 rv); r_utf8 := vbool (vget 1 rv) |} in
  let cap := vnat (vget 2 c) in
  let w0 := mkwin cap (vb (vget 3 c)) in
  match send_ops scfg w0 (vl (vget 4 c)) with
  | Some (bs, w, tbl) =>
      let '(evs, o) := read_stream Utf8.utf8_valid (fun d s _ => lookup_inflate tbl d s) window sw_dict wwrite_total
                                   (S (length bs)) rcfg0 (r_init window w0) bs in
      bytes_eqb bs (vb (vget 5 c)) && evs_eqb evs (vl (vget 6 c))
      && bytes_eqb (sw_dict w) (vb (vget 7 c))
      && match o with OMore _ st _ => bytes_eqb (sw_dict (r_dps _ st)) (vb (vget 8 c)) | _ => false end
  | None => false
  end.
