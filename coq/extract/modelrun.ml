(* Driver for the extracted correspondence runners.
   Input: one case per line, "<check-name> <val>", val ::= n<dec> | z<dec> | x<hex> | ( val* ).
   Output: "BAD <lineno>" for every case whose check returns false, then "DONE <cases> <bad>". *)
open Model

let rec pos_of_int (n : int) : positive =
  if n = 1 then XH else if n land 1 = 0 then XO (pos_of_int (n lsr 1)) else XI (pos_of_int (n lsr 1))
let n_of_int (n : int) : n = if n = 0 then N0 else Npos (pos_of_int n)

(* decimal string -> positive, arbitrary size, via repeated halving of a digit array *)
let pos_of_dec (s : string) : n =
  let d = Array.init (String.length s) (fun i -> Char.code s.[i] - 48) in
  let len = Array.length d in
  let is_zero () = Array.for_all (fun x -> x = 0) d in
  let halve () = (* d := d / 2, returns remainder *)
    let r = ref 0 in
    for i = 0 to len - 1 do
      let cur = !r * 10 + d.(i) in
      d.(i) <- cur / 2; r := cur mod 2
    done; !r in
  let bits = ref [] in
  while not (is_zero ()) do bits := halve () :: !bits done;
  (* bits: most significant first *)
  match !bits with
  | [] -> N0
  | _ :: rest -> Npos (List.fold_left (fun acc b -> if b = 1 then XI acc else XO acc) XH rest)

let z_of_dec (s : string) : z =
  if String.length s > 0 && s.[0] = '-' then
    (match pos_of_dec (String.sub s 1 (String.length s - 1)) with N0 -> Z0 | Npos p -> Zneg p)
  else (match pos_of_dec s with N0 -> Z0 | Npos p -> Zpos p)

let hexv c = match c with
  | '0'..'9' -> Char.code c - 48 | 'a'..'f' -> Char.code c - 87 | 'A'..'F' -> Char.code c - 55
  | _ -> failwith "hex"

let bytes_tbl = Array.init 256 n_of_int

let bytes_of_hex (s : string) (from : int) : n list =
  let n = (String.length s - from) / 2 in
  let rec go i acc = if i < 0 then acc
    else go (i - 1) (bytes_tbl.(hexv s.[from + 2*i] * 16 + hexv s.[from + 2*i + 1]) :: acc) in
  go (n - 1) []

let parse (toks : string list) : val0 =
  let rec one = function
    | [] -> failwith "eof"
    | "(" :: rest -> let (l, rest') = many rest [] in (VL l, rest')
    | t :: rest ->
      (match t.[0] with
       | 'n' -> (VN (pos_of_dec (String.sub t 1 (String.length t - 1))), rest)
       | 'z' -> (VZ (z_of_dec (String.sub t 1 (String.length t - 1))), rest)
       | 'x' -> (VB (bytes_of_hex t 1), rest)
       | _ -> failwith ("token " ^ t))
  and many toks acc = match toks with
    | ")" :: rest -> (List.rev acc, rest)
    | _ -> let (v, rest) = one toks in many rest (v :: acc) in
  fst (one toks)

let () =
  let ic = open_in Sys.argv.(1) in
  (* optional sharding: modelrun FILE SHARD NSHARDS evaluates only lines with lineno mod NSHARDS = SHARD *)
  let shard = if Array.length Sys.argv > 3 then int_of_string Sys.argv.(2) else 0 in
  let nshards = if Array.length Sys.argv > 3 then int_of_string Sys.argv.(3) else 1 in
  let cases = ref 0 and bad = ref 0 and lineno = ref 0 in
  (try while true do
    let line = input_line ic in
    incr lineno;
    if String.length line > 0 && !lineno mod nshards = shard then begin
      let toks = List.filter (fun s -> s <> "") (String.split_on_char ' ' line) in
      match toks with
      | name :: rest ->
        let v = parse rest in
        let ok = (try Dispatch.run name v with Stack_overflow -> false) in
        incr cases;
        if not ok then (incr bad; Printf.printf "BAD %d\n" !lineno)
      | [] -> ()
    end
  done with End_of_file -> ());
  Printf.printf "DONE %d %d\n" !cases !bad
