package main

// Concurrency-skeleton translator (Tie A): for every entry point of package gws, emit a term of the
// skeleton IR (coq/Skel/IR.v): locks taken, reads / CAS of the closed flag, transport operations, callbacks,
// accesses to guarded fields, queue / semaphore operations, spawns - in program order with branching, loops,
// defers, returns, fully inlined and specialised on whether the opcode parameter is OpcodeCloseConnection.
// Fail-closed: a construct that is not understood and that mentions a tracked entity becomes (Act AUnknown).

import (
	"fmt"
	"go/ast"
	"go/constant"
	"go/token"
	"go/types"
	"os"
	"path/filepath"
	"sort"
	"strings"

	"golang.org/x/tools/go/packages"
)

type skel struct {
	fset    *token.FileSet
	info    map[*ast.File]*types.Info
	pkgInfo map[*types.Package]*types.Info
	decls   map[*types.Func]*ast.FuncDecl
	declPkg map[*types.Func]*types.Package
	jobs    []jobLit // function literals pushed on the async queue
	stack   []string
	unknown []string
	cbLit   *ast.FuncLit // the frame callback closure of doWriteFile
	cbPkg   *types.Package
}

type jobLit struct {
	lit *ast.FuncLit
	env *env
	pkg *types.Package
}

// env: what is known about the parameters of the function being translated
type env struct {
	opcode  map[string]string         // Opcode-typed variable -> "close" | "notclose" | "unknown"
	funcs   map[string]funcVal        // function-typed variable -> what it is bound to
	ifaces  map[string]types.Type     // interface-typed variable -> concrete static type of the argument
	bools   map[string]string         // "cfg.broadcast" -> "true" | "false": literal fields of a struct argument
	role    string                    // "server" | "client": Conn.isServer is fixed for the connection
	sink    types.Type                // type of the writer given to the last flate.Writer.ResetDict
	pkg     *types.Package
	inQueue bool
}

type funcVal struct {
	lit  *ast.FuncLit
	fn   *types.Func
	env  *env
	user bool // user-supplied code
}

func (e *env) clone() *env {
	n := &env{opcode: map[string]string{}, funcs: map[string]funcVal{}, ifaces: map[string]types.Type{}, bools: map[string]string{}, sink: e.sink, pkg: e.pkg, inQueue: e.inQueue, role: e.role}
	for k, v := range e.opcode {
		n.opcode[k] = v
	}
	for k, v := range e.bools {
		n.bools[k] = v
	}
	for k, v := range e.funcs {
		n.funcs[k] = v
	}
	for k, v := range e.ifaces {
		n.ifaces[k] = v
	}
	return n
}

func (e *env) key() string {
	var ks []string
	for k, v := range e.opcode {
		ks = append(ks, k+"="+v)
	}
	for k, v := range e.ifaces {
		ks = append(ks, k+":"+v.String())
	}
	for k, v := range e.bools {
		ks = append(ks, k+"?"+v)
	}
	for k, v := range e.funcs {
		s := "user"
		if v.lit != nil {
			s = fmt.Sprint(v.lit.Pos())
		} else if v.fn != nil {
			s = v.fn.FullName()
		}
		ks = append(ks, k+"~"+s)
	}
	if e.sink != nil {
		ks = append(ks, "sink:"+e.sink.String())
	}
	ks = append(ks, "role:"+e.role)
	sort.Strings(ks)
	return strings.Join(ks, ",")
}

// ---- Coq term helpers
func seq(items ...string) string {
	var xs []string
	for _, it := range items {
		if it != "" && it != "Skip" {
			xs = append(xs, it)
		}
	}
	if len(xs) == 0 {
		return "Skip"
	}
	out := xs[len(xs)-1]
	for i := len(xs) - 2; i >= 0; i-- {
		out = "(Seq " + xs[i] + " " + out + ")"
	}
	return out
}
func choice(items ...string) string {
	var xs []string
	seen := map[string]bool{}
	for _, it := range items {
		if it == "Stuck" || seen[it] {
			continue
		}
		seen[it] = true
		xs = append(xs, it)
	}
	if len(xs) == 0 {
		return "Stuck"
	}
	out := xs[len(xs)-1]
	for i := len(xs) - 2; i >= 0; i-- {
		out = "(Choice " + xs[i] + " " + out + ")"
	}
	return out
}
func act(a string) string { return "(Act " + a + ")" }

func (s *skel) infoOf(p *types.Package) *types.Info { return s.pkgInfo[p] }

func (s *skel) unk(what string, n ast.Node) string {
	s.unknown = append(s.unknown, fmt.Sprintf("%s at %s", what, s.fset.Position(n.Pos())))
	return act("AUnknown")
}

// ---- classification of a call
func (s *skel) calleeOf(e *env, call *ast.CallExpr) (fn *types.Func, recv ast.Expr) {
	info := s.infoOf(e.pkg)
	switch f := call.Fun.(type) {
	case *ast.Ident:
		if o, ok := info.Uses[f].(*types.Func); ok {
			return o, nil
		}
	case *ast.SelectorExpr:
		if o, ok := info.Uses[f.Sel].(*types.Func); ok {
			return o, f.X
		}
	case *ast.IndexExpr: // generic instantiation
		if id, ok := f.X.(*ast.Ident); ok {
			if o, ok := info.Uses[id].(*types.Func); ok {
				return o, nil
			}
		}
		if se, ok := f.X.(*ast.SelectorExpr); ok {
			if o, ok := info.Uses[se.Sel].(*types.Func); ok {
				return o, se.X
			}
		}
	}
	return nil, nil
}

func typeName(t types.Type) string {
	for {
		if p, ok := t.(*types.Pointer); ok {
			t = p.Elem()
			continue
		}
		break
	}
	if n, ok := t.(*types.Named); ok {
		return n.Obj().Name()
	}
	return t.String()
}

func (s *skel) lockClass(e *env, recv ast.Expr) string {
	info := s.infoOf(e.pkg)
	// x.mu.Lock()  /  x.cpsLocker.Lock()  /  x.Lock() with embedded mutex
	if se, ok := recv.(*ast.SelectorExpr); ok {
		switch se.Sel.Name {
		case "cpsLocker":
			return "LCps"
		case "dpsLocker":
			return "LDps"
		case "mu":
			switch typeName(info.TypeOf(se.X)) {
			case "Conn":
				return "LConn"
			case "workerQueue":
				return "LQueue"
			}
		}
	}
	switch typeName(info.TypeOf(recv)) {
	case "Map":
		return "LMap"
	case "smap":
		return "LSmap"
	}
	return "LOther"
}

// guarded fields mentioned in an expression (selector names), as AAcc actions
var fieldClass = map[string]string{
	"cpsWindow": "FCpsWindow", "sw": "FCpsWindow", "dpsWindow": "FDpsWindow", "cpsWriter": "FCpsWriter",
	"dpsReader": "FDpsState", "dpsBuffer": "FDpsState", "q": "FQueue", "curConcurrency": "FQueue",
	"m": "FMapData", "data": "FSmapData", "continuationFrame": "FReaderState", "fh": "FReaderState", "br": "FReaderState",
}

// immutable-after-construction sub-fields: reading them is not an access to the guarded state
var immutableSub = map[string]bool{"enabled": true, "size": true}

func (s *skel) accesses(e *env, n ast.Node, write bool) []string {
	var out []string
	info := s.infoOf(e.pkg)
	ast.Inspect(n, func(x ast.Node) bool {
		if _, ok := x.(*ast.FuncLit); ok {
			return false
		}
		se, ok := x.(*ast.SelectorExpr)
		if !ok {
			return true
		}
		if immutableSub[se.Sel.Name] {
			if inner, ok := se.X.(*ast.SelectorExpr); ok {
				if _, g := fieldClass[inner.Sel.Name]; g {
					return false
				}
			}
		}
		if fc, ok := fieldClass[se.Sel.Name]; ok {
			// only fields of the tracked structs
			recv := typeName(info.TypeOf(se.X))
			okRecv := map[string]bool{"Conn": true, "readerWrapper": true, "deflater": true, "workerQueue": true, "Map": true, "smap": true}
			if okRecv[recv] && info.Selections[se] != nil && info.Selections[se].Kind() == types.FieldVal {
				out = append(out, act(fmt.Sprintf("(AAcc %s %v)", fc, write)))
			}
		}
		return true
	})
	return out
}

func isConnType(t types.Type) bool {
	return t != nil && (t.String() == "net.Conn")
}

// ---- expressions: the actions performed by evaluating e, in order
func (s *skel) expr(e *env, x ast.Expr) string {
	if x == nil {
		return "Skip"
	}
	var parts []string
	switch v := x.(type) {
	case *ast.CallExpr:
		return s.call(e, v)
	case *ast.FuncLit:
		return "Skip" // creating a closure does nothing; calls are resolved where it is used
	case *ast.BinaryExpr:
		return seq(s.expr(e, v.X), s.expr(e, v.Y))
	case *ast.UnaryExpr:
		if v.Op == token.ARROW {
			if typeName(s.infoOf(e.pkg).TypeOf(v.X)) == "channel" {
				return seq(s.expr(e, v.X), act("ASemRel")) // <-c on the parallel-handler semaphore (channel.done)
			}
			return s.expr(e, v.X)
		}
		return s.expr(e, v.X)
	case *ast.ParenExpr:
		return s.expr(e, v.X)
	case *ast.StarExpr:
		return s.expr(e, v.X)
	case *ast.SelectorExpr:
		parts = append(parts, s.expr(e, v.X))
		parts = append(parts, s.accesses(e, v, false)...)
		return seq(parts...)
	case *ast.IndexExpr:
		return seq(s.expr(e, v.X), s.expr(e, v.Index))
	case *ast.SliceExpr:
		return seq(s.expr(e, v.X), s.expr(e, v.Low), s.expr(e, v.High), s.expr(e, v.Max))
	case *ast.TypeAssertExpr:
		return s.expr(e, v.X)
	case *ast.CompositeLit:
		for _, el := range v.Elts {
			if kv, ok := el.(*ast.KeyValueExpr); ok {
				parts = append(parts, s.expr(e, kv.Value))
			} else {
				parts = append(parts, s.expr(e, el))
			}
		}
		return seq(parts...)
	case *ast.KeyValueExpr:
		return s.expr(e, v.Value)
	}
	return "Skip"
}

func (s *skel) opcodeOf(e *env, x ast.Expr) string {
	info := s.infoOf(e.pkg)
	if tv, ok := info.Types[x]; ok && tv.Value != nil && tv.Value.Kind() == constant.Int {
		if v, _ := constant.Int64Val(tv.Value); v == 8 {
			return "close"
		}
		return "notclose"
	}
	if id, ok := x.(*ast.Ident); ok {
		if v, ok := e.opcode[id.Name]; ok {
			return v
		}
	}
	return "unknown"
}

func isOpcodeType(t types.Type) bool { return t != nil && strings.HasSuffix(t.String(), "gws.Opcode") }

func (s *skel) call(e *env, call *ast.CallExpr) string {
	info := s.infoOf(e.pkg)
	// conversions and builtins
	if tv, ok := info.Types[call.Fun]; ok && (tv.IsType() || tv.IsBuiltin()) {
		var parts []string
		for _, a := range call.Args {
			parts = append(parts, s.expr(e, a))
		}
		return seq(parts...)
	}
	fn, recv := s.calleeOf(e, call)
	var pre []string
	if recv != nil {
		pre = append(pre, s.expr(e, recv))
	}
	for _, a := range call.Args {
		pre = append(pre, s.expr(e, a))
	}
	if fn == nil {
		// call through a function-typed value
		return seq(append(pre, s.callValue(e, call))...)
	}
	full := fn.FullName()
	name := fn.Name()
	switch {
	case full == "(*sync.Mutex).Lock":
		return seq(append(pre, act("(ALock "+s.lockClass(e, recv)+")"))...)
	case full == "(*sync.Mutex).Unlock":
		return seq(append(pre, act("(AUnlock "+s.lockClass(e, recv)+")"))...)
	case full == "sync/atomic.LoadUint32":
		return seq(append(pre, s.unk("LoadUint32 outside a condition", call))...)
	case full == "sync/atomic.CompareAndSwapUint32":
		return seq(append(pre, s.unk("CAS outside a condition", call))...)
	case full == "sync/atomic.AddInt64":
		return seq(append(pre, act("AAtomicAdd"))...)
	case full == "sync/atomic.AddUint64":
		return seq(pre...)
	case full == "(*sync/atomic.Value).Store":
		return seq(append(pre, act("AStoreEv"))...)
	case full == "(*sync/atomic.Value).Load":
		return seq(append(pre, act("ALoadEv"))...)
	case full == "(*sync.Once).Do":
		if lit, ok := call.Args[0].(*ast.FuncLit); ok {
			return seq(append(pre, choice("Skip", s.block(e, lit.Body.List)))...)
		}
		return seq(append(pre, s.unk("Once.Do with a non-literal", call))...)
	case strings.HasPrefix(full, "(net.Conn)."):
		switch name {
		case "Write":
			return seq(append(pre, act("(AWire KHandshake)"))...)
		case "Close":
			return seq(append(pre, act("AConnClose"))...)
		case "Read":
			return seq(append(pre, act("AConnRead"))...)
		case "SetDeadline", "SetReadDeadline", "SetWriteDeadline":
			return seq(append(pre, act("AConnDeadline"))...)
		}
		return seq(pre...)
	case strings.HasSuffix(full, "gws/internal.WriteN"):
		return seq(append(pre, act("(AWire "+s.wireKind(e, call)+")"))...)
	case strings.HasSuffix(full, "gws/internal.ReadN"), full == "io.ReadFull":
		return seq(append(pre, act("AConnRead"))...)
	case full == "net/http.ReadRequest", full == "net/http.ReadResponse":
		return seq(append(pre, "(Loop true "+act("AConnRead")+")")...)
	case full == "(*net/http.Request).Write":
		return seq(append(pre, "(Loop true "+act("(AWire KHandshake)")+")")...)
	case full == "(*bytes.Buffer).WriteTo":
		if len(call.Args) == 1 && isConnType(info.TypeOf(call.Args[0])) {
			return seq(append(pre, act("(AWire KHandshake)"))...)
		}
		return seq(pre...)
	case full == "(*bufio.Reader).Reset":
		return seq(pre...)
	case strings.HasPrefix(full, "(*github.com/klauspost/compress/flate.Writer)."):
		switch name {
		case "ResetDict":
			e.sink = info.TypeOf(call.Args[0])
			if id, ok := call.Args[0].(*ast.Ident); ok && e.ifaces[id.Name] != nil {
				e.sink = e.ifaces[id.Name]
			}
			return seq(pre...)
		case "Write", "Flush", "Close":
			// the compressor writes to the sink it was reset with, any number of times
			if e.sink != nil && typeName(e.sink) == "flateWriter" {
				if m := s.methodOf(e.sink, "Write"); m != nil {
					return seq(append(pre, "(Loop true "+s.inline(e, m, nil, nil, call)+")")...)
				}
			}
			return seq(pre...)
		}
		return seq(pre...)
	case strings.HasPrefix(full, "(github.com/lxzan/gws.Event)."):
		cb := map[string]string{"OnOpen": "CbOpen", "OnClose": "CbClose", "OnPing": "CbPing", "OnPong": "CbPong", "OnMessage": "CbMessage"}[name]
		return seq(append(pre, act("(ACb "+cb+")"))...)
	case full == "(io.Reader).Read":
		return seq(append(pre, act("(ACb CbUser)"))...) // the reader given to WriteFile is user code
	}
	// interface method of an in-package interface, or io.Writer / io.WriterTo on a bound variable
	if sig, ok := fn.Type().(*types.Signature); ok && sig.Recv() != nil {
		if _, isIface := sig.Recv().Type().Underlying().(*types.Interface); isIface {
			return seq(append(pre, s.ifaceCall(e, call, fn, recv))...)
		}
	}
	// a function or method declared in one of our packages: inline
	if d := s.declOf(fn); d != nil {
		return seq(append(pre, s.inline(e, fn, call.Args, recv, call))...)
	}
	return seq(pre...)
}

func (s *skel) declOf(fn *types.Func) *ast.FuncDecl {
	if d, ok := s.decls[fn.Origin()]; ok {
		return d
	}
	return nil
}

func (s *skel) methodOf(t types.Type, name string) *types.Func {
	for _, tt := range []types.Type{t, types.NewPointer(t)} {
		ms := types.NewMethodSet(tt)
		for i := 0; i < ms.Len(); i++ {
			if ms.At(i).Obj().Name() == name {
				if f, ok := ms.At(i).Obj().(*types.Func); ok {
					return f
				}
			}
		}
	}
	return nil
}

// kind of frame written by internal.WriteN(conn, frame): decided by the opcode variable in scope
func (s *skel) wireKind(e *env, call *ast.CallExpr) string {
	if v, ok := e.opcode["opcode"]; ok {
		switch v {
		case "close":
			return "KClose"
		case "notclose":
			return "KData"
		}
		return "KAny"
	}
	return "KData" // Broadcaster.writeFrame: the frame was generated for a data opcode
}

// call through an interface-typed receiver
func (s *skel) ifaceCall(e *env, call *ast.CallExpr, fn *types.Func, recv ast.Expr) string {
	info := s.infoOf(e.pkg)
	var concrete types.Type
	if id, ok := recv.(*ast.Ident); ok {
		concrete = e.ifaces[id.Name]
	}
	if concrete == nil {
		if t := info.TypeOf(recv); t != nil {
			if _, isIface := t.Underlying().(*types.Interface); !isIface {
				concrete = t
			}
		}
	}
	if se, ok := recv.(*ast.SelectorExpr); ok && concrete == nil {
		// c.r (readerWrapper.r: the user's reader), c.R (limitedReader.R: the inflater)
		if se.Sel.Name == "r" && fn.Name() == "Read" {
			return act("(ACb CbUser)")
		}
		if se.Sel.Name == "R" || se.Sel.Name == "dpsReader" {
			return "Skip"
		}
	}
	if concrete != nil {
		if m := s.methodOf(concrete, fn.Name()); m != nil {
			if s.declOf(m) != nil {
				return s.inline(e, m, call.Args, recv, call)
			}
			// external concrete type (bytes.Buffer, flate.Writer ...)
			if strings.Contains(concrete.String(), "flate.Writer") {
				if e.sink != nil && typeName(e.sink) == "flateWriter" {
					if w := s.methodOf(e.sink, "Write"); w != nil {
						return "(Loop true " + s.inline(e, w, nil, nil, call) + ")"
					}
				}
			}
			return "Skip"
		}
	}
	switch fn.Name() {
	case "Len", "CheckEncoding", "Error", "Reset":
		return "Skip"
	}
	// an interface declared outside our packages (and not one of the io interfaces our writers implement) cannot
	// reach a tracked entity except through a callback; user-supplied in-package interfaces are callbacks
	if t := info.TypeOf(recv); t != nil {
		ts := t.String()
		switch {
		case ts == "io.Writer" || ts == "io.WriterTo" || ts == "io.Reader" || ts == "io.ReadCloser":
			return s.unk("unresolved interface call "+fn.FullName(), call)
		case strings.Contains(ts, "lxzan/gws.Dialer") || strings.Contains(ts, "lxzan/gws.Logger") || strings.Contains(ts, "lxzan/gws.SessionStorage"):
			return act("(ACb CbUser)")
		case !strings.Contains(ts, "lxzan/gws"):
			return "Skip"
		}
	}
	return s.unk("unresolved interface call "+fn.FullName(), call)
}

// call through a function-typed variable / field
func (s *skel) callValue(e *env, call *ast.CallExpr) string {
	info := s.infoOf(e.pkg)
	switch f := call.Fun.(type) {
	case *ast.Ident:
		if t := info.TypeOf(f); t != nil && typeName(t) == "asyncJob" {
			return s.anyJob() // whatever sits in the queue, not just the job this worker was started with
		}
		if fv, ok := e.funcs[f.Name]; ok {
			return s.applyFuncVal(e, fv, call)
		}
		switch f.Name {
		case "callback":
			return act("(ACb CbUser)")
		case "cancel":
			return "Skip"
		}
		if _, ok := info.TypeOf(f).Underlying().(*types.Signature); ok {
			return s.unk("call of unbound function value "+f.Name, call)
		}
	case *ast.SelectorExpr:
		switch f.Sel.Name {
		case "cb": // flateWriter.cb: the frame callback of doWriteFile
			if s.cbLit != nil {
				return s.block(s.cbEnv(e), s.cbLit.Body.List)
			}
			return s.unk("flateWriter.cb with no closure found", call)
		case "Recovery", "Authorize", "NewSession", "NewDialer", "OnError", "OnRequest":
			return act("(ACb CbUser)")
		case "New": // sync.Pool.New
			return "Skip"
		}
		return s.unk("call of function-typed field "+f.Sel.Name, call)
	case *ast.FuncLit: // immediately invoked literal
		return s.block(e, f.Body.List)
	}
	return "Skip"
}

var cbEnvSaved *env

func (s *skel) cbEnv(e *env) *env {
	if cbEnvSaved != nil {
		n := cbEnvSaved.clone()
		return n
	}
	return e
}

func (s *skel) applyFuncVal(e *env, fv funcVal, call *ast.CallExpr) string {
	switch {
	case fv.user:
		return act("(ACb CbUser)")
	case fv.lit != nil:
		return "(Scope " + s.block(fv.env.clone(), fv.lit.Body.List) + " Skip)"
	case fv.fn != nil:
		return s.inline(e, fv.fn, nil, nil, call)
	}
	return "Skip"
}

// any job that may sit in the async queue
func (s *skel) anyJob() string {
	var alts []string
	alts = append(alts, act("(ACb CbUser)")) // Conn.Async(f) with user code
	for _, j := range s.jobs {
		ee := j.env.clone()
		ee.inQueue = true
		alts = append(alts, "(Scope "+s.block(ee, j.lit.Body.List)+" Skip)")
	}
	return seq(act("ABoundary"), choice(alts...))
}

// inline a declared function: bind opcode / function / interface parameters from the call site
func (s *skel) inline(e *env, fn *types.Func, args []ast.Expr, recv ast.Expr, at ast.Node) string {
	d := s.declOf(fn)
	if d == nil || d.Body == nil {
		return "Skip"
	}
	info := s.infoOf(e.pkg)
	ne := &env{opcode: map[string]string{}, funcs: map[string]funcVal{}, ifaces: map[string]types.Type{}, bools: map[string]string{}, sink: e.sink, pkg: s.declPkg[fn.Origin()], inQueue: e.inQueue, role: e.role}
	// receiver of interface type bound to a concrete one (payload.WriteTo -> Bytes.WriteTo: nothing to bind)
	idx := 0
	if d.Type.Params != nil {
		for _, field := range d.Type.Params.List {
			for _, nm := range field.Names {
				if idx < len(args) {
					a := args[idx]
					at := info.TypeOf(a)
					pt := s.infoOf(ne.pkg).TypeOf(field.Type)
					if cl, ok := a.(*ast.CompositeLit); ok {
						for _, el := range cl.Elts {
							if kv, ok := el.(*ast.KeyValueExpr); ok {
								if k, ok := kv.Key.(*ast.Ident); ok {
									if v, ok := kv.Value.(*ast.Ident); ok && (v.Name == "true" || v.Name == "false") {
										ne.bools[nm.Name+"."+k.Name] = v.Name
									}
								}
							}
						}
					}
					if id, ok := a.(*ast.Ident); ok {
						for k, v := range e.bools {
							if strings.HasPrefix(k, id.Name+".") {
								ne.bools[nm.Name+k[len(id.Name):]] = v
							}
						}
					}
					switch {
					case isOpcodeType(pt):
						ne.opcode[nm.Name] = s.opcodeOf(e, a)
					case pt != nil && isFuncType(pt):
						ne.funcs[nm.Name] = s.funcValOf(e, a)
					case pt != nil && isInterface(pt):
						if id, ok := a.(*ast.Ident); ok && e.ifaces[id.Name] != nil {
							ne.ifaces[nm.Name] = e.ifaces[id.Name]
						} else if at != nil && !isInterface(at) {
							ne.ifaces[nm.Name] = at
						}
					}
				} else if isOpcodeType(s.infoOf(ne.pkg).TypeOf(field.Type)) {
					ne.opcode[nm.Name] = "unknown"
				}
				idx++
			}
		}
	}
	key := fn.FullName() + "{" + ne.key() + "}"
	for _, k := range s.stack {
		if k == key {
			return s.unk("recursion through "+fn.FullName(), at)
		}
	}
	if len(s.stack) > 40 {
		return s.unk("inlining too deep at "+fn.FullName(), at)
	}
	s.stack = append(s.stack, key)
	defer func() { s.stack = s.stack[:len(s.stack)-1] }()
	return s.funcBody(ne, d)
}

func isFuncType(t types.Type) bool {
	_, ok := t.Underlying().(*types.Signature)
	return ok
}
func isInterface(t types.Type) bool {
	_, ok := t.Underlying().(*types.Interface)
	return ok
}

func (s *skel) funcValOf(e *env, a ast.Expr) funcVal {
	info := s.infoOf(e.pkg)
	switch v := a.(type) {
	case *ast.FuncLit:
		return funcVal{lit: v, env: e}
	case *ast.Ident:
		if fv, ok := e.funcs[v.Name]; ok {
			return fv
		}
		if o, ok := info.Uses[v].(*types.Func); ok {
			return funcVal{fn: o, env: e}
		}
		if v.Name == "nil" {
			return funcVal{}
		}
		return funcVal{user: true}
	case *ast.SelectorExpr:
		if o, ok := info.Uses[v.Sel].(*types.Func); ok {
			return funcVal{fn: o, env: e}
		}
		return funcVal{user: true}
	}
	return funcVal{user: true}
}

// a function body: Scope body defers
func (s *skel) funcBody(e *env, d *ast.FuncDecl) string {
	var defers []string
	var body []ast.Stmt
	for _, st := range d.Body.List {
		if ds, ok := st.(*ast.DeferStmt); ok {
			defers = append([]string{s.call(e, ds.Call)}, defers...) // LIFO
			continue
		}
		body = append(body, st)
	}
	return "(Scope " + s.block(e, body) + " " + seq(defers...) + ")"
}

func (s *skel) block(e *env, list []ast.Stmt) string {
	var parts []string
	for _, st := range list {
		parts = append(parts, s.stmt(e, st))
	}
	return seq(parts...)
}

// the two ways a condition can evaluate: (actions when true, actions when false)
func (s *skel) cond(e *env, x ast.Expr) (string, string) {
	info := s.infoOf(e.pkg)
	switch v := x.(type) {
	case *ast.ParenExpr:
		return s.cond(e, v.X)
	case *ast.UnaryExpr:
		if v.Op == token.NOT {
			t, f := s.cond(e, v.X)
			return f, t
		}
	case *ast.BinaryExpr:
		switch v.Op {
		case token.LAND:
			ta, fa := s.cond(e, v.X)
			tb, fb := s.cond(e, v.Y)
			return seq(ta, tb), choice(fa, seq(ta, fb))
		case token.LOR:
			ta, fa := s.cond(e, v.X)
			tb, fb := s.cond(e, v.Y)
			return choice(ta, seq(fa, tb)), seq(fa, fb)
		case token.NEQ, token.EQL:
			// opcode ==/!= OpcodeCloseConnection
			if isOpcodeType(info.TypeOf(v.X)) {
				if tv, ok := info.Types[v.Y]; ok && tv.Value != nil {
					if c, _ := constant.Int64Val(tv.Value); c == 8 {
						is := s.opcodeOf(e, v.X)
						eqT, eqF := "Skip", "Skip"
						switch is {
						case "close":
							eqF = "Stuck"
						case "notclose":
							eqT = "Stuck"
						}
						if v.Op == token.EQL {
							return eqT, eqF
						}
						return eqF, eqT
					}
				}
			}
		}
	case *ast.SelectorExpr:
		if v.Sel.Name == "isServer" && typeName(info.TypeOf(v.X)) == "Conn" {
			switch e.role {
			case "server":
				return "Skip", "Stuck"
			case "client":
				return "Stuck", "Skip"
			}
		}
		if id, ok := v.X.(*ast.Ident); ok {
			switch e.bools[id.Name+"."+v.Sel.Name] {
			case "true":
				return "Skip", "Stuck"
			case "false":
				return "Stuck", "Skip"
			}
		}
	case *ast.CallExpr:
		fn, recv := s.calleeOf(e, v)
		if fn != nil {
			switch {
			case fn.Name() == "isClosed" && typeName(info.TypeOf(recv)) == "Conn":
				return act("(ARead true)"), act("(ARead false)")
			case fn.FullName() == "sync/atomic.CompareAndSwapUint32":
				return act("(ACas true)"), act("(ACas false)")
			case fn.FullName() == "sync/atomic.LoadUint32":
				return act("(ARead true)"), act("(ARead false)")
			}
		}
	}
	eff := s.expr(e, x)
	return eff, eff
}

func (s *skel) stmt(e *env, st ast.Stmt) string {
	info := s.infoOf(e.pkg)
	switch v := st.(type) {
	case nil:
		return "Skip"
	case *ast.ExprStmt:
		return s.expr(e, v.X)
	case *ast.AssignStmt:
		var parts []string
		for _, r := range v.Rhs {
			parts = append(parts, s.expr(e, r))
		}
		// bookkeeping of bindings: x := funcLit ; opcode = OpcodeContinuation ; isClosed result etc.
		for i, l := range v.Lhs {
			if id, ok := l.(*ast.Ident); ok && i < len(v.Rhs) {
				if lit, ok := v.Rhs[i].(*ast.FuncLit); ok {
					e.funcs[id.Name] = funcVal{lit: lit, env: e}
				}
				if isOpcodeType(info.TypeOf(l)) {
					e.opcode[id.Name] = s.opcodeOf(e, v.Rhs[i])
				}
				if t := info.TypeOf(v.Rhs[i]); t != nil && !isInterface(t) && info.TypeOf(l) != nil && isInterface(info.TypeOf(l)) {
					e.ifaces[id.Name] = t
				} else if t != nil && !isInterface(t) {
					if _, isPtr := t.(*types.Pointer); isPtr {
						e.ifaces[id.Name] = t
					}
				}
			}
			parts = append(parts, s.accessesLhs(e, l)...)
		}
		return seq(parts...)
	case *ast.DeclStmt:
		var parts []string
		if gd, ok := v.Decl.(*ast.GenDecl); ok {
			for _, sp := range gd.Specs {
				if vs, ok := sp.(*ast.ValueSpec); ok {
					for i, val := range vs.Values {
						parts = append(parts, s.expr(e, val))
						if i < len(vs.Names) {
							if lit, ok := val.(*ast.FuncLit); ok {
								e.funcs[vs.Names[i].Name] = funcVal{lit: lit, env: e}
							}
							if t := info.TypeOf(val); t != nil && !isInterface(t) {
								e.ifaces[vs.Names[i].Name] = t
							}
						}
					}
				}
			}
		}
		return seq(parts...)
	case *ast.IncDecStmt:
		return seq(append([]string{s.expr(e, v.X)}, s.accessesLhs(e, v.X)...)...)
	case *ast.BlockStmt:
		return s.block(e, v.List)
	case *ast.IfStmt:
		init := s.stmt(e, v.Init)
		ct, cf := s.cond(e, v.Cond)
		e1 := e.clone()
		thenS := s.block(e1, v.Body.List)
		elseS := "Skip"
		if v.Else != nil {
			elseS = s.stmt(e.clone(), v.Else)
		}
		return seq(init, choice(seq(ct, thenS), seq(cf, elseS)))
	case *ast.ForStmt:
		init := s.stmt(e, v.Init)
		canExit := "true"
		ct, cf := "Skip", "Skip"
		if v.Cond == nil {
			canExit = "false"
		} else {
			ct, cf = s.cond(e, v.Cond)
		}
		inner := s.block(e.clone(), v.Body.List)
		if strings.Contains(inner, "CONTINUE") {
			if strings.Contains(inner, "Break") {
				inner = s.unk("loop with both break and continue", v)
			} else {
				inner = "(CatchBreak " + strings.ReplaceAll(inner, "CONTINUE", "Break") + ")"
			}
		}
		body := seq(ct, inner, s.stmt(e, v.Post))
		return seq(init, "(Loop "+canExit+" "+body+")", cf)
	case *ast.RangeStmt:
		return seq(s.expr(e, v.X), "(Loop true "+s.block(e.clone(), v.Body.List)+")")
	case *ast.ReturnStmt:
		var parts []string
		for _, r := range v.Results {
			parts = append(parts, s.expr(e, r))
		}
		return seq(append(parts, "Return")...)
	case *ast.BranchStmt:
		switch v.Tok {
		case token.BREAK:
			return "Break"
		case token.CONTINUE:
			return "CONTINUE"
		}
		return s.unk("goto/fallthrough", v)
	case *ast.GoStmt:
		if lit, ok := v.Call.Fun.(*ast.FuncLit); ok {
			var pre []string
			for _, a := range v.Call.Args {
				pre = append(pre, s.expr(e, a))
			}
			return seq(append(pre, act("ASpawn"), "(Spawn (Scope "+s.block(e.clone(), lit.Body.List)+" Skip))")...)
		}
		return seq(act("ASpawn"), "(Spawn "+s.call(e.clone(), v.Call)+")")
	case *ast.DeferStmt:
		return s.unk("defer not at function top level", v)
	case *ast.SwitchStmt:
		init := s.stmt(e, v.Init)
		tag := s.expr(e, v.Tag)
		var alts []string
		hasDefault := false
		for _, c := range v.Body.List {
			cc := c.(*ast.CaseClause)
			if cc.List == nil {
				hasDefault = true
			}
			alts = append(alts, "(CatchBreak "+s.block(e.clone(), cc.Body)+")")
		}
		if !hasDefault {
			alts = append(alts, "Skip")
		}
		return seq(init, tag, choice(alts...))
	case *ast.TypeSwitchStmt:
		var alts []string
		for _, c := range v.Body.List {
			cc := c.(*ast.CaseClause)
			alts = append(alts, "(CatchBreak "+s.block(e.clone(), cc.Body)+")")
		}
		alts = append(alts, "Skip")
		return seq(s.stmt(e, v.Init), choice(alts...))
	case *ast.SelectStmt:
		var alts []string
		for _, c := range v.Body.List {
			cc := c.(*ast.CommClause)
			alts = append(alts, seq(s.stmt(e, cc.Comm), "(CatchBreak "+s.block(e.clone(), cc.Body)+")"))
		}
		return choice(alts...)
	case *ast.SendStmt:
		// c <- struct{}{} : the parallel-handler semaphore (channel.add); ch <- err in request(): a result channel
		if typeName(info.TypeOf(v.Chan)) == "channel" {
			return seq(s.expr(e, v.Value), act("ASemAcq"))
		}
		return s.expr(e, v.Value)
	case *ast.LabeledStmt:
		return s.stmt(e, v.Stmt)
	case *ast.EmptyStmt:
		return "Skip"
	}
	return s.unk(fmt.Sprintf("statement %T", st), st)
}

func (s *skel) accessesLhs(e *env, l ast.Expr) []string { return s.accesses(e, l, true) }

// ---------------------------------------------------------------------------------------------

type entry struct {
	name  string
	class string
	fn    *types.Func
}

func genSkel(pkgs []*packages.Package, out string) error {
	s := &skel{decls: map[*types.Func]*ast.FuncDecl{}, declPkg: map[*types.Func]*types.Package{}, pkgInfo: map[*types.Package]*types.Info{}}
	var gws *packages.Package
	for _, p := range pkgs {
		s.fset = p.Fset
		s.pkgInfo[p.Types] = p.TypesInfo
		if !strings.HasSuffix(p.PkgPath, "/internal") {
			gws = p
		}
		for _, f := range p.Syntax {
			fname := filepath.Base(p.Fset.Position(f.Pos()).Filename)
			if strings.HasSuffix(fname, "_test.go") || strings.HasPrefix(fname, "verif_") {
				continue
			}
			for _, d := range f.Decls {
				if fd, ok := d.(*ast.FuncDecl); ok {
					if o, ok := p.TypesInfo.Defs[fd.Name].(*types.Func); ok {
						s.decls[o] = fd
						s.declPkg[o] = p.Types
					}
				}
			}
		}
	}
	if gws == nil {
		return fmt.Errorf("package gws not loaded")
	}
	// pass 1: closures pushed on the async queue, and the frame callback of doWriteFile
	for fn, d := range s.decls {
		if d.Body == nil || s.declPkg[fn] != gws.Types {
			continue
		}
		e0 := s.entryEnv(fn, d)
		ast.Inspect(d.Body, func(n ast.Node) bool {
			switch v := n.(type) {
			case *ast.CallExpr:
				if se, ok := v.Fun.(*ast.SelectorExpr); ok && (se.Sel.Name == "Push" || se.Sel.Name == "Async") && len(v.Args) == 1 {
					if lit, ok := v.Args[0].(*ast.FuncLit); ok {
						s.jobs = append(s.jobs, jobLit{lit: lit, env: e0, pkg: gws.Types})
					}
				}
			case *ast.AssignStmt:
				if fn.Name() == "doWriteFile" && len(v.Lhs) == 1 {
					if id, ok := v.Lhs[0].(*ast.Ident); ok && id.Name == "cb" {
						if lit, ok := v.Rhs[0].(*ast.FuncLit); ok {
							s.cbLit, s.cbPkg = lit, gws.Types
							cbEnvSaved = e0
						}
					}
				}
			case *ast.ValueSpec:
				if fn.Name() == "doWriteFile" && len(v.Names) == 1 && v.Names[0].Name == "cb" && len(v.Values) == 1 {
					if lit, ok := v.Values[0].(*ast.FuncLit); ok {
						s.cbLit, s.cbPkg = lit, gws.Types
						cbEnvSaved = e0
					}
				}
			}
			return true
		})
	}
	sort.Slice(s.jobs, func(i, j int) bool { return s.jobs[i].lit.Pos() < s.jobs[j].lit.Pos() })
	// entry points: discovered, not listed - exported methods of the connection-level types + constructors
	var eps []entry
	for fn, d := range s.decls {
		if s.declPkg[fn] != gws.Types || d.Body == nil {
			continue
		}
		class := ""
		if d.Recv != nil && len(d.Recv.List) == 1 {
			rt := typeName(gws.TypesInfo.TypeOf(d.Recv.List[0].Type))
			exported := ast.IsExported(d.Name.Name)
			switch {
			case rt == "Conn" && d.Name.Name == "ReadLoop":
				class = "EReader"
			case rt == "Conn" && exported:
				class = "EWrite"
			case rt == "Broadcaster" && exported:
				class = "EWrite"
			case rt == "Upgrader" && (d.Name.Name == "Upgrade" || d.Name.Name == "UpgradeFromConn"):
				class = "EHandshake"
			case rt == "Server" && d.Name.Name == "RunListener":
				class = "EHandshake"
			case (rt == "ConcurrentMap" || rt == "smap") && exported:
				class = "EMap"
			case rt == "workerQueue" && (d.Name.Name == "Push" || d.Name.Name == "getJob"):
				class = "EQueue"
			}
			if class != "" {
				eps = append(eps, entry{rt + "_" + d.Name.Name, class, fn})
			}
		} else if d.Name.Name == "NewClient" || d.Name.Name == "NewClientFromConn" {
			eps = append(eps, entry{d.Name.Name, "EHandshake", fn})
		}
	}
	sort.Slice(eps, func(i, j int) bool { return eps[i].name < eps[j].name })
	var b strings.Builder
	b.WriteString("(* GENERATED by /verif/translator (skel.go) from /repo on every run - do not edit. *)\n")
	b.WriteString("From Gws Require Import Skel.IR.\nFrom Coq Require Import List NArith Strings.String.\nImport ListNotations.\nLocal Open Scope string_scope.\n\n")
	var names []string
	var eps2 []entry
	for _, ep := range eps {
		if ep.class == "EWrite" || ep.class == "EReader" {
			eps2 = append(eps2, entry{ep.name + "_server", ep.class, ep.fn}, entry{ep.name + "_client", ep.class, ep.fn})
		} else {
			eps2 = append(eps2, ep)
		}
	}
	eps = eps2
	for _, ep := range eps {
		d := s.decls[ep.fn]
		e := s.entryEnv(ep.fn, d)
		if strings.HasSuffix(ep.name, "_server") {
			e.role = "server"
		} else if strings.HasSuffix(ep.name, "_client") {
			e.role = "client"
		}
		for i := range s.jobs {
			s.jobs[i].env.role = e.role
		}
		if cbEnvSaved != nil {
			cbEnvSaved.role = e.role
		}
		s.stack = nil
		term := s.funcBody(e, d)
		fmt.Fprintf(&b, "Definition ep_%s : stmt :=\n  %s.\n\n", ep.name, term)
		names = append(names, fmt.Sprintf("(\"%s\", %s, ep_%s)", ep.name, ep.class, ep.name))
	}
	fmt.Fprintf(&b, "Definition entry_points : list (string * epclass * stmt) :=\n  [%s].\n\n", strings.Join(names, ";\n   "))
	// names as byte lists for the correspondence runner (the extracted code must not see Coq's string type)
	var bnames []string
	for _, ep := range eps {
		var bs []string
		for _, ch := range []byte(ep.name) {
			bs = append(bs, fmt.Sprintf("%d", ch))
		}
		bnames = append(bnames, fmt.Sprintf("([%s]%%N, ep_%s)", strings.Join(bs, "; "), ep.name))
	}
	fmt.Fprintf(&b, "Definition entry_points_b : list (list N * stmt) :=\n  [%s].\n\n", strings.Join(bnames, ";\n   "))
	fmt.Fprintf(&b, "Definition translator_unknowns : nat := %d.\n", len(s.unknown))
	for _, u := range s.unknown {
		fmt.Fprintf(&b, "(* UNKNOWN: %s *)\n", strings.ReplaceAll(u, "*)", "* )"))
	}
	return os.WriteFile(filepath.Join(out, "Skel.v"), []byte(b.String()), 0o644)
}

// environment at an entry point: an opcode parameter of a public API is a data/ping/pong opcode (documented use)
func (s *skel) entryEnv(fn *types.Func, d *ast.FuncDecl) *env {
	e := &env{opcode: map[string]string{}, funcs: map[string]funcVal{}, ifaces: map[string]types.Type{}, bools: map[string]string{}, pkg: s.declPkg[fn]}
	info := s.infoOf(e.pkg)
	if d.Recv != nil {
		for _, f := range d.Recv.List {
			for _, nm := range f.Names {
				_ = nm
			}
		}
	}
	if d.Type.Params != nil {
		for _, f := range d.Type.Params.List {
			t := info.TypeOf(f.Type)
			for _, nm := range f.Names {
				switch {
				case isOpcodeType(t):
					e.opcode[nm.Name] = "notclose"
				case t != nil && isFuncType(t):
					e.funcs[nm.Name] = funcVal{user: true}
				}
			}
		}
	}
	// Broadcaster methods read c.opcode (a data opcode by construction)
	return e
}
