package main

import "golang.org/x/tools/go/packages"

// genSkel: concurrency-skeleton translation (filled in by skel_*.go); for now a no-op.
func genSkel(pkgs []*packages.Package, out string) error { return nil }
