// Function translator (Tie A for the data path): regenerates coq/Gen/Funcs.v - Gallina definitions, over Z with Go's
// fixed-width wrap-around written out, of the small integer functions and statement fragments listed in funcTargets - from
// /repo's current source.  Proofs/GenFuncsProofs.v proves each of them equal to the hand-written model it stands
// behind, so a change of a threshold, a comparison operator, a shift amount or a table entry in the Go source breaks a
// proof obligation on the next run.
//
// Supported subset (anything else makes the target "unsupported", which is itself an obligation):
//   statements: return e | x = e | x op= e | x++ | x-- | var x = e | x := e | if/else-if/else | switch tag {case a, b: ...}
//               | blocks; in `skeleton` mode, expression statements, assignments to array elements / slices and calls
//               are skipped (only the control structure and the returned values are kept)
//   expressions: identifiers, integer and boolean constants (evaluated by go/types), + - * / % << >> & | ^ &^, comparisons,
//               && || !, conversions between integer types, (*recv)[k] with constant k on an array receiver (becomes the
//               parameter recv_k), []byte{...} literals
//   types: every unsigned result is reduced mod 2^width after + - * << and conversions; `int`/`int64` are mathematical
//          integers (no overflow assumed: recorded in the trusted base)
package main

import (
	"fmt"
	"go/ast"
	"go/constant"
	"go/token"
	"go/types"
	"sort"
	"strings"

	"golang.org/x/tools/go/packages"
)

type funcTarget struct {
	pkg      string // "gws" or "internal"
	recv     string // receiver type name or ""
	name     string
	skeleton bool   // keep control structure and returns only
	conds    bool   // emit the conditions of the function's top-level `if` statements, in source order, as boolean functions of their free variables
	prefix   bool   // translate the leading statements only: stop (result 0 = "goes on") at the first top-level statement outside the subset
	valueOf  string // translate the leading statements up to the first store of this local variable into the receiver's memory and return its value there
	fragTag  string // fragment mode: translate the first `switch <fragTag>` statement ...
	fragOut  string // ... as a function of fragTag returning the final value of fragOut
	exprOf   string   // emit the right-hand side of the first `var x = e` / `x := e` of this local (anywhere in the body) as a function of its free variables
	loops    bool     // with conds: also emit the conditions of the top-level `for` statements (<name>_loop<k>)
	recvParam string  // a plain function whose parameter of this name plays the receiver's part (its fields become f_<path>)
	state    []string // receiver fields (as f_<path>) whose final values are returned next to the results: stores into them
	//                   become let-bindings, every return becomes the tuple (results..., state...)
}

var funcTargets = []funcTarget{
	{pkg: "gws", recv: "frameHeader", name: "GetFIN"},
	{pkg: "gws", recv: "frameHeader", name: "GetRSV1"},
	{pkg: "gws", recv: "frameHeader", name: "GetRSV2"},
	{pkg: "gws", recv: "frameHeader", name: "GetRSV3"},
	{pkg: "gws", recv: "frameHeader", name: "GetOpcode"},
	{pkg: "gws", recv: "frameHeader", name: "GetMask"},
	{pkg: "gws", recv: "frameHeader", name: "GetLengthCode"},
	{pkg: "gws", recv: "frameHeader", name: "SetLength", skeleton: true},
	{pkg: "gws", recv: "frameHeader", name: "GenerateHeader", valueOf: "b0"},
	{pkg: "gws", recv: "Opcode", name: "isDataFrame"},
	{pkg: "gws", recv: "Conn", name: "emitClose", fragTag: "realCode", fragOut: "responseCode"},
	{pkg: "gws", recv: "Conn", name: "checkMask"},
	{pkg: "gws", recv: "Conn", name: "readMessage", skeleton: true, prefix: true},
	{pkg: "gws", recv: "Conn", name: "readControl", skeleton: true, prefix: true},
	{pkg: "gws", recv: "Conn", name: "readMessage", conds: true},
	{pkg: "gws", recv: "Conn", name: "genFrame", conds: true},
	{pkg: "gws", recv: "slideWindow", name: "Write", conds: true},
	{pkg: "gws", recv: "Conn", name: "writeClose", conds: true},
	{pkg: "gws", recv: "Conn", name: "doWrite", conds: true},
	{pkg: "gws", recv: "Conn", name: "emitMessage", conds: true},
	{pkg: "gws", recv: "Conn", name: "compressData", conds: true},
	{pkg: "gws", recv: "limitedReader", name: "Read", skeleton: true, state: []string{"f_N"}},
	{pkg: "gws", recv: "workerQueue", name: "getJob", skeleton: true, state: []string{"f_curConcurrency"}},
	{pkg: "gws", recv: "ConcurrentMap", name: "GetSharding", exprOf: "index"},
	{pkg: "internal", name: "MaskXOR", exprOf: "key64"},
	{pkg: "internal", name: "MaskXOR", exprOf: "idx"},
	{pkg: "internal", name: "MaskByByte", exprOf: "idx"},
	{pkg: "internal", name: "MaskXOR", conds: true, loops: true},
	{pkg: "internal", name: "binaryCeil"},
	{pkg: "internal", name: "ToBinaryNumber"},
	{pkg: "internal", name: "BinaryPow"},
	{pkg: "internal", name: "Min"},
	{pkg: "internal", name: "Max"},
	{pkg: "internal", recv: "StatusCode", name: "Bytes"},
	{pkg: "internal", recv: "StatusCode", name: "Uint16"},
	{pkg: "internal", recv: "Pointer", name: "IsNil"},
	{pkg: "internal", recv: "Deque", name: "doRemove", skeleton: true, state: []string{"f_head", "f_tail", "f_length"}},
	{pkg: "internal", recv: "Deque", name: "doPushBack", skeleton: true, state: []string{"f_head", "f_tail", "f_length"}},
	{pkg: "internal", recv: "Deque", name: "doPushFront", skeleton: true, state: []string{"f_head", "f_tail", "f_length"}},
	{pkg: "gws", name: "initServerOption", skeleton: true, recvParam: "c", state: []string{"f_ReadMaxPayloadSize", "f_ParallelGolimit", "f_ReadBufferSize", "f_WriteMaxPayloadSize", "f_WriteBufferSize", "f_HandshakeTimeout",
		"f_PermessageDeflate_ServerMaxWindowBits", "f_PermessageDeflate_ClientMaxWindowBits", "f_PermessageDeflate_Threshold", "f_PermessageDeflate_Level", "f_PermessageDeflate_PoolSize"}},
	{pkg: "gws", name: "initClientOption", skeleton: true, recvParam: "c", state: []string{"f_ReadMaxPayloadSize", "f_ParallelGolimit", "f_ReadBufferSize", "f_WriteMaxPayloadSize", "f_WriteBufferSize", "f_HandshakeTimeout",
		"f_PermessageDeflate_ServerMaxWindowBits", "f_PermessageDeflate_ClientMaxWindowBits", "f_PermessageDeflate_Threshold", "f_PermessageDeflate_Level", "f_PermessageDeflate_PoolSize"}},
}

type ftr struct {
	info    *types.Info
	tgt     funcTarget
	recv    string            // receiver identifier
	params  map[string]string // extra parameters discovered ((*recv)[k], recv.field, recv.path.Method()): name -> Gallina type
	err     string
	free    map[string]string // conds mode: identifiers used in the expression (they become parameters)
	stopped string // prefix mode: the statement the translation stopped before
	fset    *token.FileSet
	results []string // state mode: the named results (v_<name>), in order
}

// state mode: the tuple returned at a return site
func (t *ftr) tuple(rs []string) string {
	all := append([]string{}, rs...)
	for _, f := range t.tgt.state {
		if _, ok := t.params[f]; !ok {
			t.params[f] = "Z"
		}
		all = append(all, f)
	}
	return "(" + strings.Join(all, ", ") + ")"
}

// the let-bound name an assignment writes: a local, or (state mode) a field of the receiver
func (t *ftr) lhsName(e ast.Expr) (string, bool) {
	if id, ok := e.(*ast.Ident); ok {
		return "v_" + id.Name, true
	}
	if len(t.tgt.state) > 0 {
		if p, ok := t.recvPath(e); ok && p != "" {
			name := "f_" + p
			listed := false
			for _, st := range t.tgt.state {
				listed = listed || st == name
			}
			if !listed {
				return "", false // a store into a field outside the state of interest: skipped like any other store
			}
			if _, ok := t.params[name]; !ok {
				t.params[name] = gtype(t.info.TypeOf(e))
			}
			return name, true
		}
	}
	return "", false
}

// assignedIn: the let-bound names (locals assigned with `=`, `op=`, `++`; listed state fields) a statement can change,
// and whether control can leave it other than by falling off its end
func (t *ftr) assignedIn(n ast.Node) (names []string, escapes bool) {
	seen := map[string]bool{}
	ast.Inspect(n, func(x ast.Node) bool {
		switch y := x.(type) {
		case *ast.FuncLit:
			return false
		case *ast.ReturnStmt, *ast.BranchStmt, *ast.ForStmt, *ast.RangeStmt, *ast.SwitchStmt, *ast.DeferStmt:
			escapes = true
		case *ast.AssignStmt:
			if y.Tok == token.DEFINE {
				return true
			}
			for _, l := range y.Lhs {
				if nm, ok := t.lhsName(l); ok && nm != "v__" && !seen[nm] {
					seen[nm] = true
					names = append(names, nm)
				}
			}
		case *ast.IncDecStmt:
			if nm, ok := t.lhsName(y.X); ok && !seen[nm] {
				seen[nm] = true
				names = append(names, nm)
			}
		}
		return true
	})
	return
}

// skeleton mode: the result of a call outside the subset is an input i_<name>, bound to the variable at this point
func (t *ftr) inputFor(id *ast.Ident) string {
	name := "i_" + id.Name
	t.params[name] = gtype(t.info.TypeOf(id))
	return name
}

// generated functions so far: key "pkg.Recv.name" -> (Gallina name, receiver-derived parameter names in order)
type genInfo struct {
	name   string
	extras []string
	etypes map[string]string
}

var generated = map[string]genInfo{}

func gtype(ty types.Type) string {
	if b, ok := ty.Underlying().(*types.Basic); ok && b.Info()&types.IsBoolean != 0 {
		return "bool"
	}
	return "Z"
}

// recvPath returns "a_b" for recv.a.b when e is a selector chain rooted at the receiver
func (t *ftr) recvPath(e ast.Expr) (string, bool) {
	switch x := e.(type) {
	case *ast.Ident:
		if x.Name == t.recv && t.recv != "" {
			return "", true
		}
	case *ast.SelectorExpr:
		if p, ok := t.recvPath(x.X); ok {
			if p == "" {
				return x.Sel.Name, true
			}
			return p + "_" + x.Sel.Name, true
		}
	}
	return "", false
}

func isNilIdent(e ast.Expr) bool {
	id, ok := e.(*ast.Ident)
	return ok && id.Name == "nil"
}

func (t *ftr) fail(format string, a ...any) string {
	if t.err == "" {
		t.err = fmt.Sprintf(format, a...)
	}
	return "0"
}

func uwidth(ty types.Type) (int, bool) {
	b, ok := ty.Underlying().(*types.Basic)
	if !ok {
		return 0, false
	}
	switch b.Kind() {
	case types.Uint8:
		return 8, true
	case types.Uint16:
		return 16, true
	case types.Uint32:
		return 32, true
	case types.Uint64, types.Uint, types.Uintptr:
		return 64, true
	}
	return 0, false
}

func isIntegral(ty types.Type) bool {
	b, ok := ty.Underlying().(*types.Basic)
	return ok && b.Info()&types.IsInteger != 0
}

func (t *ftr) wrap(e string, ty types.Type) string {
	if w, ok := uwidth(ty); ok {
		return fmt.Sprintf("((%s) mod 2 ^ %d)", e, w)
	}
	return e
}

func zlitInt(s string) string {
	if strings.HasPrefix(s, "-") {
		return "(" + s + ")"
	}
	return s
}

func (t *ftr) expr(e ast.Expr) string {
	if tv, ok := t.info.Types[e]; ok && tv.Value != nil {
		switch tv.Value.Kind() {
		case constant.Int:
			return zlitInt(tv.Value.ExactString())
		case constant.Bool:
			if constant.BoolVal(tv.Value) {
				return "true"
			}
			return "false"
		}
	}
	switch x := e.(type) {
	case *ast.ParenExpr:
		return t.expr(x.X)
	case *ast.Ident:
		if x.Name == "true" || x.Name == "false" {
			return x.Name
		}
		if x.Name == "nil" {
			return "0"
		}
		if t.free != nil {
			t.free["v_"+x.Name] = gtype(t.info.TypeOf(x))
		}
		return "v_" + x.Name
	case *ast.SelectorExpr:
		if p, ok := t.recvPath(x); ok && p != "" {
			name := "f_" + p
			t.params[name] = gtype(t.info.TypeOf(e))
			return name
		}
		if id, ok := x.X.(*ast.Ident); ok {
			ut := t.info.TypeOf(id).Underlying()
			if pt, ok := ut.(*types.Pointer); ok {
				ut = pt.Elem().Underlying()
			}
			if _, isStruct := ut.(*types.Struct); isStruct {
				name := "s_" + id.Name + "_" + x.Sel.Name // a field of a struct-valued parameter or local
				t.params[name] = gtype(t.info.TypeOf(e))
				return name
			}
		}
		return t.fail("unsupported selector")
	case *ast.IndexExpr:
		// (*recv)[k]
		base := x.X
		if p, ok := base.(*ast.ParenExpr); ok {
			base = p.X
		}
		if s, ok := base.(*ast.StarExpr); ok {
			base = s.X
		}
		id, ok := base.(*ast.Ident)
		tv, ok2 := t.info.Types[x.Index]
		if ok && ok2 && tv.Value != nil && id.Name == t.recv {
			p := fmt.Sprintf("v_%s_%s", id.Name, tv.Value.ExactString())
			t.params[p] = "Z"
			return p
		}
		return t.fail("unsupported index expression")
	case *ast.UnaryExpr:
		switch x.Op {
		case token.NOT:
			return "(negb " + t.expr(x.X) + ")"
		case token.SUB:
			return t.wrap("(- "+t.expr(x.X)+")", t.info.TypeOf(e))
		}
		return t.fail("unsupported unary operator %s", x.Op)
	case *ast.BinaryExpr:
		a, b := t.expr(x.X), t.expr(x.Y)
		ty := t.info.TypeOf(e)
		switch x.Op {
		case token.ADD:
			return t.wrap(fmt.Sprintf("(%s + %s)", a, b), ty)
		case token.SUB:
			return t.wrap(fmt.Sprintf("(%s - %s)", a, b), ty)
		case token.MUL:
			return t.wrap(fmt.Sprintf("(%s * %s)", a, b), ty)
		case token.QUO:
			return fmt.Sprintf("(%s / %s)", a, b)
		case token.REM:
			return fmt.Sprintf("(%s mod %s)", a, b)
		case token.SHL:
			return t.wrap(fmt.Sprintf("(Z.shiftl %s %s)", a, b), ty)
		case token.SHR:
			return fmt.Sprintf("(Z.shiftr %s %s)", a, b)
		case token.AND:
			return fmt.Sprintf("(Z.land %s %s)", a, b)
		case token.OR:
			return fmt.Sprintf("(Z.lor %s %s)", a, b)
		case token.XOR:
			return fmt.Sprintf("(Z.lxor %s %s)", a, b)
		case token.LSS:
			return fmt.Sprintf("(%s <? %s)", a, b)
		case token.LEQ:
			return fmt.Sprintf("(%s <=? %s)", a, b)
		case token.GTR:
			return fmt.Sprintf("(%s >? %s)", a, b)
		case token.GEQ:
			return fmt.Sprintf("(%s >=? %s)", a, b)
		case token.EQL:
			if isNilIdent(x.Y) || isNilIdent(x.X) || isIntegral(t.info.TypeOf(x.X)) {
				return fmt.Sprintf("(%s =? %s)", a, b)
			}
			return fmt.Sprintf("(Bool.eqb %s %s)", a, b)
		case token.NEQ:
			if isNilIdent(x.Y) || isNilIdent(x.X) || isIntegral(t.info.TypeOf(x.X)) {
				return fmt.Sprintf("(negb (%s =? %s))", a, b)
			}
			return fmt.Sprintf("(negb (Bool.eqb %s %s))", a, b)
		case token.LAND:
			return fmt.Sprintf("(%s && %s)", a, b)
		case token.LOR:
			return fmt.Sprintf("(%s || %s)", a, b)
		}
		return t.fail("unsupported binary operator %s", x.Op)
	case *ast.CallExpr:
		// conversion T(x) between integer types
		if tv, ok := t.info.Types[x.Fun]; ok && tv.IsType() && len(x.Args) == 1 && isIntegral(tv.Type) && isIntegral(t.info.TypeOf(x.Args[0])) {
			return t.wrap(t.expr(x.Args[0]), tv.Type)
		}
		if fn, ok := x.Fun.(*ast.Ident); ok && fn.Name == "len" && len(x.Args) == 1 {
			if id, ok := x.Args[0].(*ast.Ident); ok {
				name := "len_" + id.Name // the length of a slice-valued local or parameter
				t.params[name] = "Z"
				return name
			}
			if p, ok := t.recvPath(x.Args[0]); ok && p != "" {
				name := "len_" + p
				t.params[name] = "Z"
				return name
			}
		}
		if sel, ok := x.Fun.(*ast.SelectorExpr); ok {
			// a translated method with a value receiver, applied to a field of the receiver: a call on the field's value
			if p, ok := t.recvPath(sel.X); ok && p != "" && len(x.Args) == 0 && len(t.tgt.state) > 0 {
				if selinfo, ok := t.info.Selections[sel]; ok {
					rt := selinfo.Recv()
					if named, ok := rt.(*types.Named); ok && named.Obj().Pkg() != nil {
						pk := "gws"
						if strings.HasSuffix(named.Obj().Pkg().Path(), "/internal") {
							pk = "internal"
						}
						if g, ok := generated[pk+"."+named.Obj().Name()+"."+sel.Sel.Name]; ok && len(g.extras) == 0 {
							return "(" + g.name + " " + t.expr(sel.X) + ")"
						}
					}
				}
			}
			// a method of the receiver (or of something reachable from it) without arguments: an input of the function
			if p, ok := t.recvPath(sel.X); ok && len(x.Args) == 0 && (p != "" || t.tgt.conds) {
				name := "m_" + p + "_" + sel.Sel.Name
				if p == "" {
					name = "m_" + sel.Sel.Name
				}
				t.params[name] = gtype(t.info.TypeOf(e))
				return name
			}
			// a method that has been translated: call the generated function
			if selinfo, ok := t.info.Selections[sel]; ok {
				rt := selinfo.Recv()
				if pt, ok := rt.(*types.Pointer); ok {
					rt = pt.Elem()
				}
				if named, ok := rt.(*types.Named); ok {
					pk := "gws"
					if strings.HasSuffix(named.Obj().Pkg().Path(), "/internal") {
						pk = "internal"
					}
					if g, ok := generated[pk+"."+named.Obj().Name()+"."+sel.Sel.Name]; ok {
						var args []string
						if p, isRecv := t.recvPath(sel.X); isRecv && p == "" {
							for _, ex := range g.extras { // same receiver object: its inputs are ours
								t.params[ex] = g.etypes[ex]
								args = append(args, ex)
							}
						} else if len(g.extras) == 0 {
							args = append(args, t.expr(sel.X)) // value receiver
						} else {
							return t.fail("call of a translated method on another object")
						}
						for _, a := range x.Args {
							args = append(args, t.expr(a))
						}
						return "(" + g.name + " " + strings.Join(args, " ") + ")"
					}
				}
			}
		}
		{
			// internal.SelectValue(ok, a, b) = if ok then a else b; a translated package-level function: call it
			var fname *ast.Ident
			switch f := x.Fun.(type) {
			case *ast.Ident:
				fname = f
			case *ast.SelectorExpr:
				if pk, ok := f.X.(*ast.Ident); ok {
					if _, isPkg := t.info.Uses[pk].(*types.PkgName); isPkg {
						fname = f.Sel
					}
				}
			case *ast.IndexExpr: // explicit instantiation F[T](...)
				if sel, ok := f.X.(*ast.SelectorExpr); ok {
					fname = sel.Sel
				} else if id, ok := f.X.(*ast.Ident); ok {
					fname = id
				}
			}
			if fname != nil {
				if fo, ok := t.info.Uses[fname].(*types.Func); ok && fo.Pkg() != nil {
					if fname.Name == "SelectValue" && len(x.Args) == 3 && strings.HasSuffix(fo.Pkg().Path(), "/internal") {
						return fmt.Sprintf("(if %s then %s else %s)", t.expr(x.Args[0]), t.expr(x.Args[1]), t.expr(x.Args[2]))
					}
					pk := "gws"
					if strings.HasSuffix(fo.Pkg().Path(), "/internal") {
						pk = "internal"
					}
					if g, ok := generated[pk+".."+fname.Name]; ok && len(g.extras) == 0 {
						var args []string
						for _, a := range x.Args {
							args = append(args, t.expr(a))
						}
						return "(" + g.name + " " + strings.Join(args, " ") + ")"
					}
				}
			}
		}
		if fn, ok := x.Fun.(*ast.Ident); ok && t.tgt.conds {
			if _, isFunc := t.info.Uses[fn].(*types.Func); isFunc {
				name := "fn_" + fn.Name // a package-level function outside the subset: its result is an input of the condition
				t.params[name] = gtype(t.info.TypeOf(e))
				return name
			}
		}
		if sel, ok := x.Fun.(*ast.SelectorExpr); ok && t.tgt.conds {
			if id, ok := sel.X.(*ast.Ident); ok && id.Name != t.recv {
				// a method of another value (an interface, a buffer): its result is an input of the condition
				name := "m_" + id.Name + "_" + sel.Sel.Name
				t.params[name] = gtype(t.info.TypeOf(e))
				return name
			}
		}
		return t.fail("unsupported call")
	case *ast.CompositeLit:
		if sl, ok := t.info.TypeOf(e).Underlying().(*types.Slice); ok && isIntegral(sl.Elem()) {
			var els []string
			for _, el := range x.Elts {
				els = append(els, t.expr(el))
			}
			return "[" + strings.Join(els, "; ") + "]"
		}
		return t.fail("unsupported composite literal")
	}
	return t.fail("unsupported expression %T", e)
}

// stmts translates a statement list in continuation style; k = the Gallina term for "fall off the end".
func (t *ftr) stmts(list []ast.Stmt, k string) string {
	if len(list) == 0 {
		return k
	}
	rest := func() string { return t.stmts(list[1:], k) }
	switch s := list[0].(type) {
	case *ast.ReturnStmt:
		if len(t.tgt.state) > 0 {
			if len(s.Results) == 0 {
				if len(t.results) == 0 {
					return t.tuple([]string{"0"})
				}
				return t.tuple(t.results)
			}
			var rs []string
			for _, r := range s.Results {
				rs = append(rs, t.expr(r))
			}
			return t.tuple(rs)
		}
		if len(s.Results) == 1 {
			if call, ok := s.Results[0].(*ast.CallExpr); ok && t.tgt.skeleton {
				// `return c.other()`: a tail call into code outside the subset - marked -1 unless it can be translated
				save := t.err
				r := t.expr(call)
				if t.err != save {
					t.err = save
					return "(-1)"
				}
				return r
			}
			return t.expr(s.Results[0])
		}
		if len(s.Results) == 0 {
			return k
		}
		return t.fail("multiple results")
	case *ast.BlockStmt:
		return t.stmts(append(append([]ast.Stmt{}, s.List...), list[1:]...), k)
	case *ast.IfStmt:
		if s.Init != nil {
			noInit := *s
			noInit.Init = nil
			return t.stmts(append([]ast.Stmt{s.Init, &noInit}, list[1:]...), k)
		}
		if len(t.tgt.state) > 0 {
			// state mode: an `if` without return/break inside is a join point - it only changes the variables assigned in
			// it: `let '(x, y) := if c then <x, y after the then-branch> else <x, y after the else-branch> in rest`
			// (translating the rest once per branch would double the term at every `if`)
			names, escapes := t.assignedIn(s.Body)
			if s.Else != nil {
				n2, e2 := t.assignedIn(s.Else)
				escapes = escapes || e2
				for _, n := range n2 {
					dup := false
					for _, m := range names {
						dup = dup || m == n
					}
					if !dup {
						names = append(names, n)
					}
				}
			}
			if !escapes {
				if len(names) == 0 {
					return rest() // no effect on the values kept
				}
				sort.Strings(names)
				tup, pat := names[0], names[0]
				if len(names) > 1 {
					tup = "(" + strings.Join(names, ", ") + ")"
					pat = "'" + tup
				}
				thenJ := t.stmts(s.Body.List, tup)
				elseJ := tup
				switch e := s.Else.(type) {
				case *ast.BlockStmt:
					elseJ = t.stmts(e.List, tup)
				case *ast.IfStmt:
					elseJ = t.stmts([]ast.Stmt{e}, tup)
				}
				return fmt.Sprintf("(let %s := (if %s\n   then %s\n   else %s) in\n   %s)", pat, t.expr(s.Cond), thenJ, elseJ, rest())
			}
		}
		thenB := t.stmts(append(append([]ast.Stmt{}, s.Body.List...), list[1:]...), k)
		var elseB string
		switch e := s.Else.(type) {
		case nil:
			elseB = rest()
		case *ast.BlockStmt:
			elseB = t.stmts(append(append([]ast.Stmt{}, e.List...), list[1:]...), k)
		case *ast.IfStmt:
			elseB = t.stmts(append([]ast.Stmt{e}, list[1:]...), k)
		}
		return fmt.Sprintf("(if %s\n   then %s\n   else %s)", t.expr(s.Cond), thenB, elseB)
	case *ast.SwitchStmt:
		if s.Init != nil || s.Tag == nil {
			return t.fail("unsupported switch form")
		}
		tag := t.expr(s.Tag)
		var def []ast.Stmt
		type arm struct {
			cond string
			body []ast.Stmt
		}
		var arms []arm
		for _, c := range s.Body.List {
			cc := c.(*ast.CaseClause)
			for _, st := range cc.Body {
				if b, ok := st.(*ast.BranchStmt); ok && b.Tok == token.FALLTHROUGH {
					return t.fail("fallthrough")
				}
			}
			if cc.List == nil {
				def = cc.Body
				continue
			}
			var conds []string
			for _, v := range cc.List {
				conds = append(conds, fmt.Sprintf("(%s =? %s)", tag, t.expr(v)))
			}
			arms = append(arms, arm{strings.Join(conds, " || "), cc.Body})
		}
		out := t.stmts(append(append([]ast.Stmt{}, def...), list[1:]...), k)
		for i := len(arms) - 1; i >= 0; i-- {
			out = fmt.Sprintf("(if %s\n   then %s\n   else %s)", arms[i].cond, t.stmts(append(append([]ast.Stmt{}, arms[i].body...), list[1:]...), k), out)
		}
		return out
	case *ast.IncDecStmt:
		ln, ok := t.lhsName(s.X)
		if !ok {
			if t.tgt.skeleton {
				return rest()
			}
			return t.fail("++/-- on a non-identifier")
		}
		op := "+"
		if s.Tok == token.DEC {
			op = "-"
		}
		return fmt.Sprintf("(let %s := %s in\n   %s)", ln, t.wrap(fmt.Sprintf("(%s %s 1)", ln, op), t.info.TypeOf(s.X)), rest())
	case *ast.AssignStmt:
		if len(s.Lhs) != 1 || len(s.Rhs) != 1 {
			if t.tgt.skeleton && s.Tok == token.DEFINE && len(s.Rhs) == 1 {
				// `a, err := call(...)` with a call outside the subset: its results are inputs of the generated function
				for _, l := range s.Lhs {
					if id, ok := l.(*ast.Ident); ok && id.Name != "_" {
						t.params["v_"+id.Name] = gtype(t.info.TypeOf(id))
					}
				}
				return rest()
			}
			if _, isCall := s.Rhs[0].(*ast.CallExpr); t.tgt.skeleton && s.Tok == token.ASSIGN && len(s.Rhs) == 1 && isCall {
				// `a, err = call(...)` into existing variables: fresh inputs bound at this point
				out := rest()
				for i := len(s.Lhs) - 1; i >= 0; i-- {
					if id, ok := s.Lhs[i].(*ast.Ident); ok && id.Name != "_" {
						out = fmt.Sprintf("(let v_%s := %s in\n   %s)", id.Name, t.inputFor(id), out)
					}
				}
				return out
			}
			if len(s.Lhs) == len(s.Rhs) && len(t.tgt.state) > 0 && (s.Tok == token.ASSIGN || s.Tok == token.DEFINE) {
				// a, b = x, y: simultaneous; components stored outside the tracked values are dropped
				var names, vals []string
				for i := range s.Lhs {
					if nm, ok := t.lhsName(s.Lhs[i]); ok && nm != "v__" {
						names = append(names, nm)
						vals = append(vals, t.expr(s.Rhs[i]))
					}
				}
				switch len(names) {
				case 0:
					return rest()
				case 1:
					return fmt.Sprintf("(let %s := %s in\n   %s)", names[0], vals[0], rest())
				}
				return fmt.Sprintf("(let '(%s) := (%s) in\n   %s)", strings.Join(names, ", "), strings.Join(vals, ", "), rest())
			}
			return t.fail("multiple assignment")
		}
		lname, ok := t.lhsName(s.Lhs[0])
		if !ok {
			if t.tgt.skeleton {
				return rest() // a store into the receiver's memory: not part of the skeleton
			}
			return t.fail("assignment to a non-identifier")
		}
		if lname == "v__" {
			return rest()
		}
		var rhs string
		ty := t.info.TypeOf(s.Lhs[0])
		if ty == nil {
			ty = t.info.TypeOf(s.Rhs[0])
		}
		switch s.Tok {
		case token.ASSIGN, token.DEFINE:
			if id, isId := s.Lhs[0].(*ast.Ident); isId && t.tgt.skeleton && len(t.tgt.state) > 0 {
				if _, isCall := s.Rhs[0].(*ast.CallExpr); isCall {
					save := t.err
					rhs = t.expr(s.Rhs[0])
					if t.err != save {
						t.err = save
						rhs = t.inputFor(id)
					}
					break
				}
			}
			rhs = t.expr(s.Rhs[0])
		default:
			ops := map[token.Token]string{token.ADD_ASSIGN: "+", token.SUB_ASSIGN: "-", token.MUL_ASSIGN: "*"}
			fns := map[token.Token]string{token.OR_ASSIGN: "Z.lor", token.AND_ASSIGN: "Z.land", token.XOR_ASSIGN: "Z.lxor", token.SHL_ASSIGN: "Z.shiftl", token.SHR_ASSIGN: "Z.shiftr"}
			if o, ok := ops[s.Tok]; ok {
				rhs = t.wrap(fmt.Sprintf("(%s %s %s)", lname, o, t.expr(s.Rhs[0])), ty)
			} else if f, ok := fns[s.Tok]; ok {
				rhs = fmt.Sprintf("(%s %s %s)", f, lname, t.expr(s.Rhs[0]))
				if s.Tok == token.SHL_ASSIGN {
					rhs = t.wrap(rhs, ty)
				}
			} else {
				return t.fail("unsupported assignment operator %s", s.Tok)
			}
		}
		return fmt.Sprintf("(let %s := %s in\n   %s)", lname, rhs, rest())
	case *ast.DeclStmt:
		gd, ok := s.Decl.(*ast.GenDecl)
		if !ok || gd.Tok != token.VAR {
			return t.fail("unsupported declaration")
		}
		out := rest()
		for i := len(gd.Specs) - 1; i >= 0; i-- {
			vs := gd.Specs[i].(*ast.ValueSpec)
			if len(vs.Names) != 1 || len(vs.Values) != 1 {
				if len(t.tgt.state) > 0 && len(vs.Names) == len(vs.Values) {
					for j := len(vs.Names) - 1; j >= 0; j-- { // var a, b T = x, y (initialisers do not mention a, b)
						out = fmt.Sprintf("(let v_%s := %s in\n   %s)", vs.Names[j].Name, t.expr(vs.Values[j]), out)
					}
					continue
				}
				if t.tgt.skeleton {
					continue
				}
				return t.fail("unsupported var spec")
			}
			if _, isArr := t.info.TypeOf(vs.Names[0]).Underlying().(*types.Array); isArr {
				continue
			}
			val := ""
			if _, isCall := vs.Values[0].(*ast.CallExpr); isCall && t.tgt.skeleton && len(t.tgt.state) > 0 {
				save := t.err
				val = t.expr(vs.Values[0])
				if t.err != save {
					t.err = save
					val = t.inputFor(vs.Names[0])
				}
			} else {
				val = t.expr(vs.Values[0])
			}
			out = fmt.Sprintf("(let v_%s := %s in\n   %s)", vs.Names[0].Name, val, out)
		}
		return out
	case *ast.ExprStmt:
		if t.tgt.skeleton {
			return rest()
		}
		return t.fail("expression statement")
	case *ast.DeferStmt:
		if t.tgt.skeleton && len(t.tgt.state) > 0 {
			return rest() // a deferred unlock: no effect on the values
		}
		return t.fail("defer")
	case *ast.ForStmt:
		if s.Init != nil {
			noInit := *s
			noInit.Init = nil
			return t.stmts(append([]ast.Stmt{s.Init, &noInit}, list[1:]...), k)
		}
		if s.Cond == nil {
			return t.fail("for without condition")
		}
		// the loop state: every identifier assigned in the body or the post statement
		set := map[string]bool{}
		var collect func(n ast.Node) bool
		collect = func(n ast.Node) bool {
			switch x := n.(type) {
			case *ast.AssignStmt:
				for _, l := range x.Lhs {
					if id, ok := l.(*ast.Ident); ok {
						set["v_"+id.Name] = true
					}
				}
			case *ast.IncDecStmt:
				if id, ok := x.X.(*ast.Ident); ok {
					set["v_"+id.Name] = true
				}
			case *ast.ReturnStmt, *ast.BranchStmt:
				t.fail("return/break/continue inside a loop")
			}
			return true
		}
		ast.Inspect(s.Body, collect)
		if s.Post != nil {
			ast.Inspect(s.Post, collect)
		}
		var vars []string
		for v := range set {
			vars = append(vars, v)
		}
		sort.Strings(vars)
		if len(vars) == 0 {
			return t.fail("loop without state")
		}
		tup := vars[0]
		bind := "let " + vars[0] + " := st in"
		if len(vars) > 1 {
			tup = "(" + strings.Join(vars, ", ") + ")"
			bind = "let '" + tup + " := st in"
		}
		body := append([]ast.Stmt{}, s.Body.List...)
		if s.Post != nil {
			body = append(body, s.Post)
		}
		cond := t.expr(s.Cond)
		step := t.stmts(body, tup)
		pat := vars[0]
		if len(vars) > 1 {
			pat = "'" + tup
		}
		// bounded iteration: 200 rounds cover every loop over the bits of a machine word; a loop that needs more leaves the
		// state of round 200 (the lemmas state the range of inputs they cover)
		return fmt.Sprintf("(let %s := gf_loop 200 (fun st => %s %s) (fun st => %s %s) %s in\n   %s)", pat, bind, cond, bind, step, tup, rest())
	}
	return t.fail("unsupported statement %T", list[0])
}

func findSwitch(n ast.Node, tag string) *ast.SwitchStmt {
	var found *ast.SwitchStmt
	ast.Inspect(n, func(x ast.Node) bool {
		if found != nil {
			return false
		}
		if s, ok := x.(*ast.SwitchStmt); ok {
			if id, ok := s.Tag.(*ast.Ident); ok && id.Name == tag {
				found = s
				return false
			}
		}
		return true
	})
	return found
}

var pkgFset *token.FileSet

func genFuncs(pkgs []*packages.Package) string {
	if len(pkgs) > 0 {
		pkgFset = pkgs[0].Fset
	}
	var b strings.Builder
	b.WriteString("(* GENERATED by /verif/translator (funcs.go) from /repo on every run - do not edit.\n   Go integer semantics over Z: unsigned results reduced mod 2^width, int = mathematical integer. *)\n")
	b.WriteString("From Coq Require Import ZArith List Bool.\nImport ListNotations.\nLocal Open Scope Z_scope.\nLocal Open Scope bool_scope.\n\n")
	b.WriteString("(* `for cond { body }`: at most `fuel` rounds *)\nFixpoint gf_loop {S : Type} (fuel : nat) (cond : S -> bool) (body : S -> S) (s : S) : S :=\n  match fuel with O => s | Datatypes.S f => if cond s then gf_loop f cond body (body s) else s end.\n\n")
	var unsupported []string
	for _, tg := range funcTargets {
		var fd *ast.FuncDecl
		var info *types.Info
		for _, p := range pkgs {
			isInternal := strings.HasSuffix(p.PkgPath, "/internal")
			if (tg.pkg == "internal") != isInternal {
				continue
			}
			for _, f := range p.Syntax {
				for _, d := range f.Decls {
					fn, ok := d.(*ast.FuncDecl)
					if !ok || fn.Name.Name != tg.name || fn.Body == nil {
						continue
					}
					rn := ""
					if fn.Recv != nil && len(fn.Recv.List) == 1 {
						ty := fn.Recv.List[0].Type
						if s, ok := ty.(*ast.StarExpr); ok {
							ty = s.X
						}
						switch g := ty.(type) { // a generic receiver: T[K] / T[K, V]
						case *ast.IndexExpr:
							ty = g.X
						case *ast.IndexListExpr:
							ty = g.X
						}
						if id, ok := ty.(*ast.Ident); ok {
							rn = id.Name
						}
					}
					if rn == tg.recv {
						fd, info = fn, p.TypesInfo
					}
				}
			}
		}
		name := "gf_" + tg.pkg + "_" + tg.name
		if tg.recv != "" {
			name = "gf_" + tg.pkg + "_" + tg.recv + "_" + tg.name
		}
		if fd == nil {
			unsupported = append(unsupported, name+": function not found")
			continue
		}
		if tg.exprOf != "" {
			recvName := ""
			if fd.Recv != nil && len(fd.Recv.List[0].Names) == 1 {
				recvName = fd.Recv.List[0].Names[0].Name
			}
			var rhs ast.Expr
			ast.Inspect(fd.Body, func(n ast.Node) bool {
				if rhs != nil {
					return false
				}
				switch x := n.(type) {
				case *ast.AssignStmt:
					if x.Tok == token.DEFINE && len(x.Lhs) == 1 && len(x.Rhs) == 1 {
						if id, ok := x.Lhs[0].(*ast.Ident); ok && id.Name == tg.exprOf {
							rhs = x.Rhs[0]
						}
					}
				case *ast.ValueSpec:
					if len(x.Names) == 1 && len(x.Values) == 1 && x.Names[0].Name == tg.exprOf {
						rhs = x.Values[0]
					}
				}
				return true
			})
			ename := name + "_" + tg.exprOf
			if rhs == nil {
				unsupported = append(unsupported, ename+": definition not found")
				continue
			}
			tc := &ftr{info: info, tgt: tg, params: map[string]string{}, free: map[string]string{}, recv: recvName}
			e := tc.expr(rhs)
			if tc.err != "" {
				unsupported = append(unsupported, ename+": "+tc.err)
				continue
			}
			all := map[string]string{}
			for k, v := range tc.params {
				all[k] = v
			}
			for k, v := range tc.free {
				all[k] = v
			}
			var names []string
			for k := range all {
				names = append(names, k)
			}
			sort.Strings(names)
			fmt.Fprintf(&b, "(* %s.%s.%s: the value given to `%s` *)\nDefinition %s", tg.pkg, tg.recv, tg.name, tg.exprOf, ename)
			for _, k := range names {
				fmt.Fprintf(&b, " (%s : %s)", k, all[k])
			}
			fmt.Fprintf(&b, " :=\n  %s.\n\n", e)
			continue
		}
		if tg.conds {
			recvName := ""
			if fd.Recv != nil && len(fd.Recv.List[0].Names) == 1 {
				recvName = fd.Recv.List[0].Names[0].Name
			}
			n := 0
			for _, st := range fd.Body.List {
				ifs, ok := st.(*ast.IfStmt)
				if !ok {
					continue
				}
				n++
				tc := &ftr{info: info, tgt: tg, params: map[string]string{}, free: map[string]string{}, recv: recvName}
				e := tc.expr(ifs.Cond)
				cname := fmt.Sprintf("%s_cond%d", name, n)
				if tc.err != "" {
					unsupported = append(unsupported, cname+": "+tc.err)
					continue
				}
				all := map[string]string{}
				for k, v := range tc.params {
					all[k] = v
				}
				for k, v := range tc.free {
					if k != "v_"+recvName {
						all[k] = v
					}
				}
				var names []string
				for k := range all {
					names = append(names, k)
				}
				sort.Strings(names)
				fmt.Fprintf(&b, "(* %s.%s.%s: condition of top-level if #%d *)\nDefinition %s", tg.pkg, tg.recv, tg.name, n, cname)
				for _, k := range names {
					fmt.Fprintf(&b, " (%s : %s)", k, all[k])
				}
				fmt.Fprintf(&b, " : bool :=\n  %s.\n\n", e)
			}
			fmt.Fprintf(&b, "Definition %s_nconds : nat := %d.\n\n", name, n)
			if tg.loops {
				k := 0
				for _, st := range fd.Body.List {
					fs, ok := st.(*ast.ForStmt)
					if !ok || fs.Cond == nil {
						continue
					}
					k++
					tc := &ftr{info: info, tgt: tg, params: map[string]string{}, free: map[string]string{}, recv: recvName}
					e := tc.expr(fs.Cond)
					cname := fmt.Sprintf("%s_loop%d", name, k)
					if tc.err != "" {
						unsupported = append(unsupported, cname+": "+tc.err)
						continue
					}
					all := map[string]string{}
					for kk, v := range tc.params {
						all[kk] = v
					}
					for kk, v := range tc.free {
						all[kk] = v
					}
					var names []string
					for kk := range all {
						names = append(names, kk)
					}
					sort.Strings(names)
					fmt.Fprintf(&b, "(* %s.%s.%s: condition of top-level for #%d *)\nDefinition %s", tg.pkg, tg.recv, tg.name, k, cname)
					for _, kk := range names {
						fmt.Fprintf(&b, " (%s : %s)", kk, all[kk])
					}
					fmt.Fprintf(&b, " : bool :=\n  %s.\n\n", e)
				}
				fmt.Fprintf(&b, "Definition %s_nloops : nat := %d.\n\n", name, k)
			}
			continue
		}
		t := &ftr{info: info, tgt: tg, params: map[string]string{}}
		type par struct{ name, ty string }
		var params []par
		var body, note string
		setRecv := func(t *ftr) {
			if fd.Recv != nil && len(fd.Recv.List[0].Names) == 1 {
				t.recv = fd.Recv.List[0].Names[0].Name
			}
			if tg.recvParam != "" {
				t.recv = tg.recvParam
			}
		}
		if tg.fragTag != "" {
			sw := findSwitch(fd.Body, tg.fragTag)
			if sw == nil {
				unsupported = append(unsupported, name+": fragment not found")
				continue
			}
			name += "_" + tg.fragOut
			params = []par{{"v_" + tg.fragTag, "Z"}, {"v_" + tg.fragOut, "Z"}}
			body = t.stmts([]ast.Stmt{sw}, "v_"+tg.fragOut)
		} else {
			setRecv(t)
			if t.recv != "" && fd.Recv != nil {
				if _, isPtr := fd.Recv.List[0].Type.(*ast.StarExpr); !isPtr {
					if isIntegral(info.TypeOf(fd.Recv.List[0].Type)) {
						params = append(params, par{"v_" + t.recv, "Z"}) // value receiver of integer type
					}
				}
			}
			for _, f := range fd.Type.Params.List {
				for _, n := range f.Names {
					params = append(params, par{"v_" + n.Name, gtype(info.TypeOf(f.Type))})
				}
			}
			k := "0"
			named := fd.Type.Results != nil && len(fd.Type.Results.List) == 1 && len(fd.Type.Results.List[0].Names) == 1
			if named {
				k = "v_" + fd.Type.Results.List[0].Names[0].Name
			}
			if len(tg.state) > 0 {
				named = false
				if fd.Type.Results != nil {
					for _, f := range fd.Type.Results.List {
						for _, n := range f.Names {
							t.results = append(t.results, "v_"+n.Name)
						}
					}
				}
				if len(t.results) > 0 {
					k = t.tuple(t.results)
				} else {
					k = t.tuple([]string{"0"})
				}
			}
			list := fd.Body.List
			if tg.valueOf != "" {
				// statements up to `<receiver memory> = <valueOf>`; the value of the variable at that point is the result
				cut := -1
				for i, st := range list {
					if as, ok := st.(*ast.AssignStmt); ok && len(as.Lhs) == 1 && len(as.Rhs) == 1 {
						_, lhsIsIdent := as.Lhs[0].(*ast.Ident)
						if id, ok := as.Rhs[0].(*ast.Ident); ok && id.Name == tg.valueOf && !lhsIsIdent {
							cut = i
							break
						}
					}
				}
				if cut < 0 {
					unsupported = append(unsupported, name+": store of "+tg.valueOf+" not found")
					continue
				}
				name += "_" + tg.valueOf
				list = list[:cut]
				k = "v_" + tg.valueOf
				named = false
			}
			if tg.prefix {
				// the longest leading run of top-level statements inside the subset
				for n := len(list); n >= 0; n-- {
					t2 := &ftr{info: info, tgt: tg, params: map[string]string{}}
					setRecv(t2)
					b2 := t2.stmts(list[:n], k)
					if t2.err == "" {
						t, body = t2, b2
						if n < len(list) {
							note = fmt.Sprintf("(* the translated prefix ends before the statement at %s *)\n", pkgFset.Position(list[n].Pos()).String()[strings.LastIndex(pkgFset.Position(list[n].Pos()).String(), "/")+1:])
						}
						break
					}
				}
			} else {
				body = t.stmts(list, k)
			}
			if named {
				body = fmt.Sprintf("(let %s := 0 in\n   %s)", k, body)
			}
			for i := len(t.results) - 1; i >= 0; i-- {
				body = fmt.Sprintf("(let %s := 0 in\n   %s)", t.results[i], body)
			}
		}
		if t.err != "" {
			unsupported = append(unsupported, name+": "+t.err)
			continue
		}
		var extra []string
		for p := range t.params {
			dup := false
			for _, q := range params {
				if q.name == p {
					dup = true
				}
			}
			if !dup {
				extra = append(extra, p)
			}
		}
		sort.Strings(extra)
		key := tg.pkg + "." + tg.recv + "." + tg.name
		generated[key] = genInfo{name: name, extras: extra, etypes: t.params}
		fmt.Fprintf(&b, "(* %s.%s%s *)\n%sDefinition %s", tg.pkg, map[bool]string{true: tg.recv + ".", false: ""}[tg.recv != ""], tg.name, note, name)
		for _, p := range extra {
			fmt.Fprintf(&b, " (%s : %s)", p, t.params[p])
		}
		for _, p := range params {
			fmt.Fprintf(&b, " (%s : %s)", p.name, p.ty)
		}
		fmt.Fprintf(&b, " :=\n  %s.\n\n", body)
	}
	b.WriteString("Definition funcs_unsupported : list nat := [")
	for i := range unsupported {
		if i > 0 {
			b.WriteString("; ")
		}
		fmt.Fprintf(&b, "%d", i+1)
	}
	b.WriteString("]%nat.\n")
	for _, u := range unsupported {
		fmt.Fprintf(&b, "(* unsupported: %s *)\n", u)
	}
	return b.String()
}
