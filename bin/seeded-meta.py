#!/usr/bin/env python3
"""seeded-meta.py: (re)write seeded/<name>/meta.json from NOTES.md, props and eval.log (the transcript of
bin/mut-eval.sh, which confirms the change in a scratch worktree: demo passes without / fails with the patch, the
library's suite passes with it, and runs the listed checks against the patched tree)."""
import json, os, re, sys
V = os.path.dirname(os.path.dirname(os.path.abspath(__file__)))
S = os.path.join(V, "seeded")

def para_after(text, pat):
    m = re.search(pat, text, re.I)
    if not m:
        return ""
    rest = text[m.start():]
    parts = re.split(r"\n\s*\n", rest, maxsplit=1)
    p = parts[0]
    if len(p) < 80 and len(parts) > 1:        # heading only: take the next paragraph too
        p = p + " " + re.split(r"\n\s*\n", parts[1], maxsplit=1)[0]
    return re.sub(r"\s+", " ", p.replace("*", "")).strip()[:900]

rows = []
for name in sorted(os.listdir(S)):
    d = os.path.join(S, name)
    if not os.path.isdir(d) or not os.path.exists(os.path.join(d, "patch.diff")):
        continue
    notes = open(os.path.join(d, "NOTES.md")).read() if os.path.exists(os.path.join(d, "NOTES.md")) else ""
    props = open(os.path.join(d, "props")).read().split() if os.path.exists(os.path.join(d, "props")) else []
    log = open(os.path.join(d, "eval.log")).read() if os.path.exists(os.path.join(d, "eval.log")) else ""
    # confirm.log: transcript of the full confirmation run (demo without/with the patch, suite with the patch);
    # eval.log: transcript of the latest evaluation of the checks (possibly FAST=1: patch applied, checks only)
    clog = open(os.path.join(d, "confirm.log")).read() if os.path.exists(os.path.join(d, "confirm.log")) else log
    demo = [f for f in os.listdir(d) if f.endswith("_test.go")]
    files = sorted(set(re.findall(r"^diff --git a/(\S+)", open(os.path.join(d, "patch.diff")).read(), re.M)))
    meta = {"name": name, "patch": "patch.diff", "files_changed": files, "demonstration": demo,
            "breaks": para_after(notes, r"propert(y|ies)\W"), "needs_to_manifest": para_after(notes, r"needs? (in order )?to manifest"),
            "checks_run": props}
    if log:
        sec = re.split(r"^== ", log, flags=re.M)
        csec = re.split(r"^== ", clog, flags=re.M)
        def part(prefix):
            for s_ in csec:
                if s_.startswith(prefix):
                    return s_
            return ""
        d0, suite, d1 = part("demo on unmodified"), part("build + suite"), part("demo with the patch")
        meta["confirmed_in_scratch_worktree"] = {
            "demo_without_patch": "pass" if re.search(r"^ok\s", d0, re.M) and "FAIL" not in d0 else ("fail" if d0 else "not run"),
            "demo_with_patch": "fail" if "FAIL" in d1 else ("pass" if d1 else "not run"),
            "existing_suite_with_patch": "pass" if len(re.findall(r"^ok\s", suite, re.M)) >= 2 and "FAIL" not in suite else ("fail" if suite else "not run"),
            "commands": ["git -C /repo worktree add --detach <scratch> HEAD", "go test -run <demo> (unmodified)", "git apply patch.diff",
                         "go build ./... && go test -vet=off -count=1 ./...   (inside unshare -rn: the suite uses fixed ports)",
                         "go test -run <demo> (patched)", "VERIF_REPO=<scratch> bin/vcheck <Cxx> --tier quick", "git worktree remove --force <scratch>"]}
        res = {}
        for s_ in sec:
            m = re.match(r"vcheck (C\d\d) against the mutant\n(.*)", s_, re.S)
            if m:
                body = m.group(2)
                if "VIOLATION" in body:
                    first = re.search(r"^  (failing input|broken [^:]*): (.*)$", body, re.M)
                    res[m.group(1)] = {"verdict": "VIOLATION" + (" no-failing-input-found" if "no-failing-input-found" in body else ""),
                                       "first_report": (first.group(1) + ": " + first.group(2))[:300] if first else ""}
                elif re.search(r"^OK ", body, re.M):
                    res[m.group(1)] = {"verdict": "OK (missed)"}
                else:
                    res[m.group(1)] = {"verdict": "no verdict", "output": body[:200]}
        meta["checks"] = res
        meta["caught_by"] = [p for p, r in res.items() if r["verdict"].startswith("VIOLATION")]
    if os.path.exists(os.path.join(d, "note")):
        meta["note"] = open(os.path.join(d, "note")).read().strip()
    json.dump(meta, open(os.path.join(d, "meta.json"), "w"), indent=1)
    rows.append(meta)
if "--table" in sys.argv:
    print("| change | files | demo w/o / with | suite | " + "caught by | missed by |")
    print("|---|---|---|---|---|---|")
    for m in rows:
        c = m.get("confirmed_in_scratch_worktree", {})
        ch = m.get("checks", {})
        print("| `%s` | %s | %s / %s | %s | %s | %s |" % (m["name"], ", ".join(m["files_changed"]), c.get("demo_without_patch", "?"), c.get("demo_with_patch", "?"),
              c.get("existing_suite_with_patch", "?"),
              ", ".join(p + (" (obligation only)" if "no-failing" in r["verdict"] else "") for p, r in ch.items() if r["verdict"].startswith("VIOLATION")) or "-",
              ", ".join(p for p, r in ch.items() if not r["verdict"].startswith("VIOLATION")) or "-"))
