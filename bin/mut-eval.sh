#!/bin/bash
# mut-eval.sh <mutation-dir> <Cxx> [more Cxx...]: verify a seeded mutation and run the given checks against it.
# 1. scratch worktree of /repo HEAD; apply patch.diff; build; full suite must pass
# 2. demo test must fail with the patch and pass without
# FAST=1 skips steps 1-2 (already confirmed) and only applies the patch
# 3. VERIF_REPO=<scratch> bin/vcheck Cxx --tier quick  -> VIOLATION expected
set -u
export GOFLAGS=-mod=mod GOPROXY=off GOSUMDB=off GOTOOLCHAIN=local
M=$(realpath "$1"); shift
V=$(cd "$(dirname "$0")/.." && pwd)
S=/tmp/muteval-$$
git -C /repo worktree add -f --detach $S HEAD >/dev/null 2>&1 || { echo "worktree failed"; exit 2; }
trap 'git -C /repo worktree remove --force $S >/dev/null 2>&1' EXIT
cd $S
demo=$(ls $M/*_test.go 2>/dev/null | head -1)
pkgdir=.
if [ -n "$demo" ] && grep -q "^package internal" "$demo"; then pkgdir=internal; fi
[ -n "$demo" ] && cp "$demo" $pkgdir/
tname=$(grep -o "^func Test[A-Za-z0-9_]*" "$demo" | sed 's/func //' | paste -sd'|')   # every test of the demonstration file
tname="($tname)"
if [ "${FAST:-0}" = 1 ]; then
  git apply $M/patch.diff || { echo "PATCH DOES NOT APPLY"; exit 3; }
  go build ./... || exit 4
else
echo "== demo on unmodified tree ($tname)"
(cd $pkgdir && unshare -rn bash -c "ip link set lo up; go test -vet=off -count=1 -run '^${tname}\$' . 2>&1" | tail -3)
git apply $M/patch.diff || { echo "PATCH DOES NOT APPLY"; exit 3; }
echo "== build + suite with the patch"
rm -f $pkgdir/$(basename "$demo")
# (the library's own TestSegments/decompress_error hangs about once in ten runs on the unmodified tree as well - it corrupts
# one byte of a random deflate stream and waits for an error that does not always come: one retry for that case only)
go build ./... || exit 4
for attempt in 1 2; do
  unshare -rn bash -c "ip link set lo up; go test -vet=off -count=1 -timeout 150s ./... 2>&1" > /tmp/muteval-suite-$$.out
  if grep -a -q "TestSegments/decompress_error" /tmp/muteval-suite-$$.out && [ $attempt = 1 ]; then echo "(suite: known flaky TestSegments/decompress_error hung, retrying)"; continue; fi
  break
done
grep -a -E "^(ok|FAIL|---|panic:)" /tmp/muteval-suite-$$.out | grep -v "no test files" | tail -4; rm -f /tmp/muteval-suite-$$.out
[ -n "$demo" ] && cp "$demo" $pkgdir/
echo "== demo with the patch"
(cd $pkgdir && unshare -rn bash -c "ip link set lo up; go test -vet=off -count=1 -run '^${tname}\$' . 2>&1" | tail -4)
rm -f $pkgdir/$(basename "$demo")
fi
for P in "$@"; do
  echo "== vcheck $P against the mutant"
  (cd $V && VERIF_REPO=$S bin/vcheck $P --tier quick 2>&1 | cut -c1-400 | grep -E "^(VIOLATION|OK|KNOWN|  broken|  failing)" | head -8)
done
