#!/bin/bash
# run the pinned test suite of /repo (guard off); prints PASS/FAIL summary
export GOFLAGS=-mod=mod GOPROXY=off GOSUMDB=off GOTOOLCHAIN=local
cd ${1:-/repo} && go build ./... && go test -vet=off -count=1 -timeout 25m ./... 2>&1 | tail -15
