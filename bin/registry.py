# Per-property registry: which Corr checks exist (name used in case files, Corr module, Coq function),
# what is assumed, and the extra trusted base.
ALLOWED_AXIOMS = {
    # axioms the Coq standard library itself declares; named in DESIGN.md section 7 if they ever appear
    "functional_extensionality_dep", "proof_irrelevance", "classic", "JMeq_eq", "eq_rect_eq",
    "propositional_extensionality", "constructive_indefinite_description",
}

INBOUND_ASSUMPTIONS = ["klauspost inflater is a parameter of the model: instantiated per case by the results of Go's compress/flate on the same (dictionary, input) pairs",
                       "unicode/utf8.Valid verdicts are computed by Model/Utf8.utf8_valid inside the runner (Model/Utf8 is proved equal to the RFC 3629 specification and validated against unicode/utf8 under C16)",
                       "bufio.Reader/io.ReadFull deliver the transport's bytes in order (T1); net/http parsing is not modelled"]

REGISTRY = {
    "C03": {"checks": [("C03", "CheckC03", "check_c03")], "assumptions": INBOUND_ASSUMPTIONS},
    "C04": {"checks": [("C03", "CheckC03", "check_c03")], "assumptions": INBOUND_ASSUMPTIONS + ["the Go runtime, bufio, net/http and klauspost's inflater are not modelled: for them the no-panic / no-hang / allocation clauses are watchdog observations (testing)"]},
    "C13": {"checks": [("C03", "CheckC03", "check_c03")], "assumptions": INBOUND_ASSUMPTIONS},
    "C05": {
        "checks": [("C05w", "CheckC05", "check_c05w"), ("C05bc", "CheckC05", "check_c05bc"),
                   ("C05file", "CheckC05", "check_c05file"), ("C05filez", "CheckC05", "check_c05filez")],
        "assumptions": ["klauspost/compress/flate is not modelled: the compressed bytes observed on the wire instantiate the model's deflate parameter; that they inflate to the payload under the RFC 7692 receiver is checked by the harness with Go's compress/flate (testing, not proof)",
                        "unicode/utf8.Valid = Model/Utf8.utf8_valid (exhaustively compared for short strings by C16's check)",
                        "net.Conn.Write transfers the whole buffer or returns an error (T1)"],
    },
    "C18": {
        "checks": [("C18", "CheckC18", "check_c18")],
        "assumptions": ["binary.LittleEndian load/store = base-256 little-endian (modelled as le_load/le_store)",
                        "Go slices alias a backing array; the model masks a region of a list and the harness checks the guards around it"],
    },
}

# per-property entries kept as JSON files (bin/registry.d/<Cxx>.json): {"checks": [[name, module, function], ...], "assumptions": [...], ...}
import os as _os, json as _json, glob as _glob
for _f in sorted(_glob.glob(_os.path.join(_os.path.dirname(_os.path.abspath(__file__)), "registry.d", "*.json"))):
    _e = _json.load(open(_f))
    _e["checks"] = [tuple(x) for x in _e.get("checks", [])]
    REGISTRY[_os.path.basename(_f)[:-5]] = _e
