# Per-property registry: which Corr checks exist (name used in case files, Corr module, Coq function),
# what is assumed, and the extra trusted base.
ALLOWED_AXIOMS = {
    # axioms the Coq standard library itself declares; named in DESIGN.md section 7 if they ever appear
    "functional_extensionality_dep", "proof_irrelevance", "classic", "JMeq_eq", "eq_rect_eq",
    "propositional_extensionality", "constructive_indefinite_description",
}

REGISTRY = {
    "C18": {
        "checks": [("C18", "CheckC18", "check_c18")],
        "assumptions": ["binary.LittleEndian load/store = base-256 little-endian (modelled as le_load/le_store)",
                        "Go slices alias a backing array; the model masks a region of a list and the harness checks the guards around it"],
    },
}
