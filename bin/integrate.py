#!/usr/bin/env python3
"""integrate.py WORKDIR Cxx [Cyy ...]: copy the new files an agent produced in WORKDIR/verif into /verif and register the checks."""
import sys, os, json, shutil, importlib.util, subprocess
V = os.path.dirname(os.path.dirname(os.path.abspath(__file__)))
W = os.path.join(sys.argv[1], "verif")
props = sys.argv[2:]
# 1. new files (never overwrite an existing file unless identical)
new = []
for sub in ("coq/Lib", "coq/Model", "coq/Spec", "coq/Proofs", "coq/Properties", "coq/Corr", "harness"):
    d = os.path.join(W, sub)
    if not os.path.isdir(d):
        continue
    for f in sorted(os.listdir(d)):
        if not (f.endswith(".v") or f.endswith(".go")):
            continue
        src, dst = os.path.join(d, f), os.path.join(V, sub, f)
        if os.path.exists(dst):
            if open(src).read() != open(dst).read():
                print("DIFFERS (kept /verif version):", sub + "/" + f)
            continue
        shutil.copyfile(src, dst); new.append(sub + "/" + f)
print("copied:", new)
# 2. _CoqProject lines
cp = open(os.path.join(V, "coq/_CoqProject")).read()
have = set(cp.split("\n"))
for l in open(os.path.join(W, "coq/_CoqProject")).read().split("\n"):
    if l.endswith(".v") and l not in have and os.path.exists(os.path.join(V, "coq", l)):
        cp += l + "\n"; print("_CoqProject +", l)
open(os.path.join(V, "coq/_CoqProject"), "w").write(cp)
# 3. registry + manifest entries
spec = importlib.util.spec_from_file_location("areg", os.path.join(W, "bin/registry.py")); areg = importlib.util.module_from_spec(spec); spec.loader.exec_module(areg)
am = json.load(open(os.path.join(W, "MANIFEST.json")))
m = json.load(open(os.path.join(V, "MANIFEST.json")))
os.makedirs(os.path.join(V, "bin/registry.d"), exist_ok=True)
for p in props:
    e = dict(areg.REGISTRY[p]); e["checks"] = [list(x) for x in e["checks"]]
    json.dump(e, open(os.path.join(V, "bin/registry.d", p + ".json"), "w"), indent=1)
    ent = [c for c in am["checks"] if c["property_id"] == p]
    if ent:
        m["checks"] = [c for c in m["checks"] if c["property_id"] != p] + ent
        m["engines"][0]["serves_properties"] = sorted(set(m["engines"][0]["serves_properties"] + [p]))
    for f in os.listdir(W):
        if f.startswith("INTEGRATION-" + p):
            os.makedirs(os.path.join(V, "notes"), exist_ok=True); shutil.copyfile(os.path.join(W, f), os.path.join(V, "notes", f))
m["checks"].sort(key=lambda c: c["property_id"])
json.dump(m, open(os.path.join(V, "MANIFEST.json"), "w"), indent=1)
# 4. go.mod requirements
am_mod = open(os.path.join(W, "harness/go.mod")).read(); vm_mod = open(os.path.join(V, "harness/go.mod")).read()
if am_mod != vm_mod:
    print("NOTE: harness/go.mod differs:\n" + am_mod)
