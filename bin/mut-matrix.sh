#!/bin/bash
# mut-matrix.sh [name...]: evaluate the seeded mutations (all, or the named ones) against the checks listed in
# seeded/<name>/props and leave the transcript in seeded/<name>/eval.log (FAST=1: checks only; the full confirmation
# transcript - demo without/with the patch, suite with the patch - is kept as seeded/<name>/confirm.log).  Uses scratch worktrees of /repo under /tmp.
V=$(cd "$(dirname "$0")/.." && pwd)
cd $V
names="$@"
[ -z "$names" ] && names=$(ls seeded)
for n in $names; do
  [ -f seeded/$n/props ] || continue
  echo "######## $n: $(cat seeded/$n/props)"
  FAST=${FAST:-0} bin/mut-eval.sh seeded/$n $(cat seeded/$n/props) 2>&1 | grep -v "^WARNING" > seeded/$n/eval.log
  [ "${FAST:-0}" = 0 ] && cp seeded/$n/eval.log seeded/$n/confirm.log
  grep -E "^(== demo|ok|FAIL|---|VIOLATION|OK)" seeded/$n/eval.log | cut -c1-200
done
