// Correspondence harness: drives the real lxzan/gws (built from /repo with -tags verif) and writes
// (a) Gallina case files the Coq models are evaluated on, (b) a summary with the input distribution
// and the verdicts of each property's own oracle on the implementation's behaviour.
package main

import (
	"flag"
	"fmt"
	"os"
)

var runners = map[string]func(*Ctx) error{}

func main() {
	prop := flag.String("prop", "", "property id")
	tier := flag.String("tier", "quick", "quick|thorough")
	seed := flag.Int64("seed", 1, "PRNG seed")
	out := flag.String("out", "", "output directory")
	flag.Parse()
	run, ok := runners[*prop]
	if !ok {
		fmt.Fprintln(os.Stderr, "unknown property", *prop)
		os.Exit(2)
	}
	if err := os.MkdirAll(*out, 0o755); err != nil {
		panic(err)
	}
	ctx := newCtx(*prop, *tier, *seed, *out)
	if err := run(ctx); err != nil {
		fmt.Fprintln(os.Stderr, "harness error:", err)
		os.Exit(3)
	}
	if err := ctx.flush(); err != nil {
		fmt.Fprintln(os.Stderr, "harness error:", err)
		os.Exit(3)
	}
}
