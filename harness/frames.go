package main

// The harness's own RFC 6455 frame codec and RFC 7692 inflater (Go's compress/flate, not the
// klauspost implementation gws uses).  Independent of gws: used as the property oracle on the
// implementation's wire bytes and to craft inbound streams.

import (
	"bytes"
	"compress/flate"
	"encoding/binary"
	"fmt"
	"github.com/lxzan/gws"
	"io"
)

type frame struct {
	Fin, Rsv1, Rsv2, Rsv3 bool
	Opcode                int
	Masked                bool
	Key                   []byte
	Payload               []byte // unmasked
	Minimal               bool   // shortest length form used
	Raw                   []byte
}

// lenForm: 0 = shortest, 1 = force 16-bit, 2 = force 64-bit. declLen < 0: use len(payload).
type frameSpec struct {
	Fin, Rsv1, Rsv2, Rsv3 bool
	Opcode                int
	Masked                bool
	Key                   [4]byte
	Payload               []byte
	LenForm               int
	DeclLen               int64 // declared length when different from len(Payload) (adversarial); <0 = actual
	DeclU64               uint64
	UseU64                bool
}

func encodeFrame(s frameSpec) []byte {
	var b []byte
	b0 := byte(s.Opcode & 15)
	if s.Fin {
		b0 |= 0x80
	}
	if s.Rsv1 {
		b0 |= 0x40
	}
	if s.Rsv2 {
		b0 |= 0x20
	}
	if s.Rsv3 {
		b0 |= 0x10
	}
	b = append(b, b0)
	n := uint64(len(s.Payload))
	if s.DeclLen >= 0 && (s.DeclLen != 0 || s.UseU64) {
		n = uint64(s.DeclLen)
	}
	if s.UseU64 {
		n = s.DeclU64
	}
	var b1 byte
	if s.Masked {
		b1 = 0x80
	}
	form := s.LenForm
	if form == 0 {
		switch {
		case n <= 125:
		case n <= 65535:
			form = 1
		default:
			form = 2
		}
	}
	switch form {
	case 0:
		b = append(b, b1|byte(n))
	case 1:
		b = append(b, b1|126, byte(n>>8), byte(n))
	default:
		var l [8]byte
		binary.BigEndian.PutUint64(l[:], n)
		b = append(b, b1|127)
		b = append(b, l[:]...)
	}
	p := append([]byte(nil), s.Payload...)
	if s.Masked {
		b = append(b, s.Key[:]...)
		for i := range p {
			p[i] ^= s.Key[i&3]
		}
	}
	return append(b, p...)
}

func dataFrame(op int, fin bool, masked bool, payload []byte) []byte {
	return encodeFrame(frameSpec{Fin: fin, Opcode: op, Masked: masked, Key: [4]byte{0x11, 0x22, 0x33, 0x44}, Payload: payload, DeclLen: -1})
}

// parseFrames decodes as many complete frames as b holds; rest is the undecoded tail.
func parseFrames(b []byte) (fs []frame, rest []byte, err error) {
	for len(b) > 0 {
		f, n, e := parseFrame(b)
		if e == io.ErrUnexpectedEOF {
			return fs, b, nil
		}
		if e != nil {
			return fs, b, e
		}
		fs = append(fs, f)
		b = b[n:]
	}
	return fs, nil, nil
}

func parseFrame(b []byte) (frame, int, error) {
	var f frame
	if len(b) < 2 {
		return f, 0, io.ErrUnexpectedEOF
	}
	f.Fin, f.Rsv1, f.Rsv2, f.Rsv3 = b[0]&0x80 != 0, b[0]&0x40 != 0, b[0]&0x20 != 0, b[0]&0x10 != 0
	f.Opcode = int(b[0] & 15)
	f.Masked = b[1]&0x80 != 0
	lc := int(b[1] & 0x7f)
	off := 2
	var n uint64
	f.Minimal = true
	switch lc {
	case 126:
		if len(b) < 4 {
			return f, 0, io.ErrUnexpectedEOF
		}
		n = uint64(binary.BigEndian.Uint16(b[2:4]))
		off = 4
		f.Minimal = n > 125
	case 127:
		if len(b) < 10 {
			return f, 0, io.ErrUnexpectedEOF
		}
		n = binary.BigEndian.Uint64(b[2:10])
		off = 10
		f.Minimal = n > 65535
		if n>>63 != 0 {
			return f, 0, fmt.Errorf("64-bit length with the top bit set")
		}
	default:
		n = uint64(lc)
	}
	if f.Masked {
		if len(b) < off+4 {
			return f, 0, io.ErrUnexpectedEOF
		}
		f.Key = append([]byte(nil), b[off:off+4]...)
		off += 4
	}
	if uint64(len(b)-off) < n {
		return f, 0, io.ErrUnexpectedEOF
	}
	f.Payload = append([]byte(nil), b[off:off+int(n)]...)
	if f.Masked {
		for i := range f.Payload {
			f.Payload[i] ^= f.Key[i&3]
		}
	}
	f.Raw = b[:off+int(n)]
	return f, off + int(n), nil
}

// wfOutbound checks one frame against what C05 demands of everything gws emits for role `server`.
func wfOutbound(f frame, server bool) string {
	switch {
	case !f.Minimal:
		return "payload length not in shortest form"
	case f.Masked == server:
		return fmt.Sprintf("mask bit %v for server=%v", f.Masked, server)
	case f.Rsv2 || f.Rsv3:
		return "RSV2/RSV3 set"
	case f.Opcode >= 8 && (!f.Fin || len(f.Payload) > 125 || f.Rsv1):
		return "control frame fragmented, too long or with RSV1"
	case f.Opcode > 2 && f.Opcode < 8, f.Opcode > 10:
		return fmt.Sprintf("reserved opcode %d", f.Opcode)
	}
	return ""
}

type wireMsg struct {
	Opcode     int
	Compressed bool
	Payload    []byte // concatenated frame payloads (still compressed if Compressed)
	Raw        []byte // for compressed messages: the compressed bytes as found on the wire (after unmasking)
	Frames     int
}

// groupMessages reassembles data messages and returns control frames in place; checks the fragmentation grammar.
func groupMessages(fs []frame) (msgs []wireMsg, problem string) {
	var cur *wireMsg
	for _, f := range fs {
		if f.Opcode >= 8 {
			msgs = append(msgs, wireMsg{Opcode: f.Opcode, Payload: f.Payload, Frames: 1})
			continue
		}
		if f.Opcode == 0 {
			if cur == nil {
				return msgs, "continuation frame with no message in progress"
			}
			if f.Rsv1 {
				return msgs, "RSV1 on a continuation frame"
			}
			cur.Payload = append(cur.Payload, f.Payload...)
			cur.Frames++
		} else {
			if cur != nil {
				return msgs, "new data frame inside an unfinished message"
			}
			cur = &wireMsg{Opcode: f.Opcode, Compressed: f.Rsv1, Payload: append([]byte(nil), f.Payload...), Frames: 1}
		}
		if f.Fin {
			msgs = append(msgs, *cur)
			cur = nil
		}
	}
	if cur != nil {
		return msgs, "unfinished fragmented message at end of stream"
	}
	return msgs, ""
}

// rfc7692Inflate: append 00 00 ff ff, inflate with the given history as preset dictionary (independent inflater).
func rfc7692Inflate(compressed, history []byte) ([]byte, error) {
	src := append(append([]byte(nil), compressed...), 0x00, 0x00, 0xff, 0xff, 0x01, 0x00, 0x00, 0xff, 0xff)
	r := flate.NewReaderDict(bytes.NewReader(src), history)
	out, err := io.ReadAll(r)
	return out, err
}

// rfc7692Deflate: a conforming sender built on Go's compress/flate with a preset dictionary.
func rfc7692Deflate(payload, history []byte, level int) []byte {
	var buf bytes.Buffer
	w, _ := flate.NewWriterDict(&buf, level, history)
	_, _ = w.Write(payload)
	_ = w.Flush()
	b := buf.Bytes()
	if n := len(b); n >= 4 && bytes.Equal(b[n-4:], []byte{0, 0, 0xff, 0xff}) {
		b = b[:n-4]
	}
	return append([]byte(nil), b...)
}

func lastN(b []byte, n int) []byte {
	if len(b) > n {
		return b[len(b)-n:]
	}
	return b
}

// headerLengthSweep: frameHeader.GenerateHeader for every opcode class, both roles and declared lengths at every
// length-form boundary and far beyond what can be sent in a test (up to 2^62: `int` is 64 bits and the limits are
// configurable), compared with the harness's own RFC 6455 encoder and read back through frameHeader.Parse.
func headerLengthSweep(c *Ctx) {
	lens := []int64{0, 1, 125, 126, 127, 65535, 65536, 65537, 1<<24 - 1, 1 << 24, 1<<31 - 1, 1 << 31, 1<<32 - 1, 1 << 32, 1<<32 + 5, 1<<40 + 3, 1<<48 + 7, 1<<56 + 1, 1<<62 - 1, 1 << 62}
	for i := 0; i < 40; i++ {
		lens = append(lens, int64(c.Rng.Uint64()>>uint(1+c.Rng.Intn(40))))
	}
	for _, server := range []bool{true, false} {
		for _, ln := range lens {
			for _, opc := range []int{1, 2, 0} {
				fin, comp := ln%2 == 0, ln%3 == 0 && opc != 0
				got := gws.VerifGenerateHeader(server, fin, comp, uint8(opc), int(ln))
				want := encodeFrame(frameSpec{Fin: fin, Rsv1: comp, Opcode: opc, Masked: !server, DeclLen: ln})
				tag := fmt.Sprintf("header server=%v opcode=%d fin=%v rsv1=%v length=%d", server, opc, fin, comp, ln)
				n := len(want)
				if !server {
					n -= 4 // the mask key is random
				}
				bad := len(got) != len(want) || !bytes.Equal(got[:min(n, len(got))], want[:n])
				back, perr := gws.VerifParseHeader(got)
				if bad || perr != nil || int64(back) != ln {
					c.oracleFail(fmt.Sprintf("frame header for a payload of %d bytes is % x (an RFC 6455 encoder gives % x); read back it declares %d bytes (err %v) [%s]", ln, got, want[:n], back, perr, tag),
						"header-length", map[string]any{"tag": tag, "header_hex": fmt.Sprintf("%x", got)})
				}
				c.count(tag, true, "kind=header-length")
			}
		}
	}
}
