package main

// In-memory transport written for the harness: taps every operation, cuts the byte stream into any
// chunking, fails or stalls any operation by index, can park a writer until released.  Plus the
// helpers that put a real gws.Conn (either role) on top of it.

import (
	"bufio"
	"bytes"
	"errors"
	"fmt"
	"io"
	"net"
	"net/http"
	"os"
	"strings"
	"sync"
	"time"

	"github.com/lxzan/gws"
)

type memAddr struct{}

func (memAddr) Network() string { return "mem" }
func (memAddr) String() string  { return "mem" }

type opRec struct {
	Kind string // "W" write, "R" read, "C" close, "D" deadline
	N    int
	Err  bool
	Head []byte // first bytes of a Write
}

var errInjected = errors.New("injected transport fault")

// seqLog: one ordered log shared by a transport and a handler (observable actions, codes of coq/Skel/Accept.v)
type seqLog struct {
	mu    sync.Mutex
	codes []int
}

func (l *seqLog) add(c int) {
	if l == nil {
		return
	}
	l.mu.Lock()
	l.codes = append(l.codes, c)
	l.mu.Unlock()
}
func (l *seqLog) snapshot() []int {
	l.mu.Lock()
	defer l.mu.Unlock()
	return append([]int(nil), l.codes...)
}

type memConn struct {
	mu      sync.Mutex
	cond    *sync.Cond
	seq     *seqLog
	rechunk func([]byte) [][]byte // how bytes written here are cut into the peer's reads

	chunks    [][]byte // pending inbound data; one Read never crosses a chunk boundary
	eofAtEnd  bool     // when chunks run out: true = io.EOF (peer vanished), false = block until closed
	closed    bool
	peerGone  bool
	closeCnt  int
	writes    [][]byte
	ops       []opRec
	peer      *memConn
	onWrite   func(b []byte)
	rdeadline time.Time

	// fault plan
	failWrite       int // index of Write call to fail (-1 none)
	failRead        int
	writeErr        error // error returned by failing writes (default errInjected)
	writeDeadFrom   int   // >= 0: every Write with this index or a later one fails (a broken link; reads stay healthy)
	failReadErr     error // error returned by the failing Read (default errInjected)
	failDead        int
	shortWrite      int            // index of Write call that transfers only half and returns io.ErrShortWrite
	afterWrite      map[int]func() // hook after the n-th write has been logged (before returning)
	gate            chan struct{}  // if non-nil, every Write waits for a token after logging "entered"
	lateCopy        bool           // with a gate: the second half of the bytes is taken from the caller's buffer only when the gate opens (a transport that has accepted part of a write)
	gateEntered     chan int
	nWrite          int
	nRead           int
	nDead           int
	writeAfterClose int
}

func newMemConn() *memConn {
	c := &memConn{failWrite: -1, failRead: -1, failDead: -1, shortWrite: -1, writeDeadFrom: -1}
	c.cond = sync.NewCond(&c.mu)
	return c
}

// feed appends inbound chunks.
func (c *memConn) feed(chunks ...[]byte) {
	c.mu.Lock()
	for _, ch := range chunks {
		if len(ch) > 0 {
			c.chunks = append(c.chunks, append([]byte(nil), ch...))
		}
	}
	c.cond.Broadcast()
	c.mu.Unlock()
}

func (c *memConn) setEOF() {
	c.mu.Lock()
	c.eofAtEnd = true
	c.cond.Broadcast()
	c.mu.Unlock()
}

func (c *memConn) Read(p []byte) (int, error) {
	c.mu.Lock()
	defer c.mu.Unlock()
	idx := c.nRead
	c.nRead++
	if idx == c.failRead {
		c.ops = append(c.ops, opRec{Kind: "R", Err: true})
		if c.failReadErr != nil {
			return 0, c.failReadErr
		}
		return 0, errInjected
	}
	for {
		if c.closed {
			c.ops = append(c.ops, opRec{Kind: "R", Err: true})
			return 0, net.ErrClosed
		}
		if len(c.chunks) > 0 {
			ch := c.chunks[0]
			n := copy(p, ch)
			if n == len(ch) {
				c.chunks = c.chunks[1:]
			} else {
				c.chunks[0] = ch[n:]
			}
			c.ops = append(c.ops, opRec{Kind: "R", N: n})
			return n, nil
		}
		if c.eofAtEnd || c.peerGone {
			c.ops = append(c.ops, opRec{Kind: "R", Err: true})
			return 0, io.EOF
		}
		if !c.rdeadline.IsZero() && !time.Now().Before(c.rdeadline) {
			c.ops = append(c.ops, opRec{Kind: "R", Err: true})
			return 0, os.ErrDeadlineExceeded
		}
		c.cond.Wait()
	}
}

func (c *memConn) Write(p []byte) (int, error) {
	c.mu.Lock()
	idx := c.nWrite
	c.nWrite++
	if c.closed {
		c.writeAfterClose++
		c.ops = append(c.ops, opRec{Kind: "W", Err: true})
		c.mu.Unlock()
		return 0, net.ErrClosed
	}
	if idx == c.failWrite || (c.writeDeadFrom >= 0 && idx >= c.writeDeadFrom) {
		c.ops = append(c.ops, opRec{Kind: "W", Err: true})
		werr := c.writeErr
		c.mu.Unlock()
		if werr != nil {
			return 0, werr
		}
		return 0, errInjected
	}
	data := append([]byte(nil), p...)
	var err error
	if idx == c.shortWrite {
		data = data[:len(data)/2]
		err = io.ErrShortWrite
	}
	c.writes = append(c.writes, data)
	c.ops = append(c.ops, opRec{Kind: "W", N: len(data), Err: err != nil, Head: append([]byte(nil), data[:minI(len(data), 8)]...)})
	if c.seq != nil {
		code := 1
		if len(data) > 0 && data[0]&15 == 8 {
			code = 2
		}
		if bytes.HasPrefix(data, []byte("HTTP/")) || bytes.HasPrefix(data, []byte("GET ")) {
			code = 5
		}
		c.seq.add(code)
	}
	hook := c.onWrite
	peer := c.peer
	gate, entered := c.gate, c.gateEntered
	after := c.afterWrite[idx]
	c.mu.Unlock()
	if gate != nil {
		if entered != nil {
			entered <- idx
		}
		<-gate
		c.mu.Lock()
		if c.lateCopy && err == nil {
			copy(data[len(data)/2:], p[len(data)/2:len(data)])
		}
		c.mu.Unlock()
	}
	if peer != nil {
		if c.rechunk != nil {
			peer.feed(c.rechunk(data)...)
		} else {
			peer.feed(data)
		}
	}
	if hook != nil {
		hook(data)
	}
	if after != nil {
		after()
	}
	return len(data), err
}

func (c *memConn) Close() error {
	c.mu.Lock()
	c.closeCnt++
	already := c.closed
	c.closed = true
	c.ops = append(c.ops, opRec{Kind: "C"})
	c.seq.add(3)
	peer := c.peer
	c.cond.Broadcast()
	c.mu.Unlock()
	if peer != nil && !already {
		peer.mu.Lock()
		peer.peerGone = true
		peer.cond.Broadcast()
		peer.mu.Unlock()
	}
	if already {
		return net.ErrClosed
	}
	return nil
}

func (c *memConn) LocalAddr() net.Addr  { return memAddr{} }
func (c *memConn) RemoteAddr() net.Addr { return memAddr{} }

func (c *memConn) deadline(t time.Time, read bool) error {
	c.mu.Lock()
	defer c.mu.Unlock()
	idx := c.nDead
	c.nDead++
	c.ops = append(c.ops, opRec{Kind: "D", Err: idx == c.failDead})
	if idx == c.failDead {
		return errInjected
	}
	if c.closed {
		return net.ErrClosed
	}
	if read {
		c.rdeadline = t
		if !t.IsZero() {
			d := time.Until(t)
			if d < 0 {
				d = 0
			}
			time.AfterFunc(d+time.Millisecond, func() { c.mu.Lock(); c.cond.Broadcast(); c.mu.Unlock() })
		}
	}
	return nil
}
func (c *memConn) SetDeadline(t time.Time) error      { return c.deadline(t, true) }
func (c *memConn) SetReadDeadline(t time.Time) error  { return c.deadline(t, true) }
func (c *memConn) SetWriteDeadline(t time.Time) error { return c.deadline(t, false) }

// snapshot accessors
func (c *memConn) written() []byte {
	c.mu.Lock()
	defer c.mu.Unlock()
	return bytes.Join(c.writes, nil)
}
func (c *memConn) writeCalls() [][]byte {
	c.mu.Lock()
	defer c.mu.Unlock()
	return append([][]byte(nil), c.writes...)
}
func (c *memConn) numWrites() int {
	c.mu.Lock()
	defer c.mu.Unlock()
	return len(c.writes)
}
func (c *memConn) isClosed() (bool, int) {
	c.mu.Lock()
	defer c.mu.Unlock()
	return c.closed, c.closeCnt
}
func (c *memConn) resetLog() {
	c.mu.Lock()
	c.writes = nil
	c.mu.Unlock()
}

// connect two ends
func memPipe() (*memConn, *memConn) {
	a, b := newMemConn(), newMemConn()
	a.peer, b.peer = b, a
	return a, b
}

// ---------------------------------------------------------------------------------------------
// recording handler

type evRec struct {
	Kind    string // open, close, ping, pong, msg
	Opcode  int
	Payload []byte
	Err     error
}

type recHandler struct {
	seq      *seqLog
	mu       sync.Mutex
	evs      []evRec
	onMsg    func(s *gws.Conn, op gws.Opcode, p []byte) // optional extra behaviour (runs after recording)
	onPing   func(s *gws.Conn, p []byte)
	keepMsg  bool          // do not Close messages (ownership tests)
	lateRead time.Duration // parallel handling: look at the message only after this delay (it is the handler's until Close)
	held     []*gws.Message
}

func (h *recHandler) add(e evRec) {
	h.mu.Lock()
	h.evs = append(h.evs, e)
	h.mu.Unlock()
}
func (h *recHandler) events() []evRec {
	h.mu.Lock()
	defer h.mu.Unlock()
	return append([]evRec(nil), h.evs...)
}
func (h *recHandler) OnOpen(s *gws.Conn) { h.seq.add(10); h.add(evRec{Kind: "open"}) }
func (h *recHandler) OnClose(s *gws.Conn, e error) {
	h.seq.add(11)
	h.add(evRec{Kind: "close", Err: e})
}
func (h *recHandler) OnPing(s *gws.Conn, p []byte) {
	h.seq.add(12)
	h.add(evRec{Kind: "ping", Opcode: 9, Payload: append([]byte(nil), p...)})
	if h.onPing != nil {
		h.onPing(s, p)
	}
}
func (h *recHandler) OnPong(s *gws.Conn, p []byte) {
	h.seq.add(13)
	h.add(evRec{Kind: "pong", Opcode: 10, Payload: append([]byte(nil), p...)})
}
func (h *recHandler) OnMessage(s *gws.Conn, m *gws.Message) {
	if h.lateRead > 0 {
		time.Sleep(h.lateRead)
	}
	p := append([]byte(nil), m.Bytes()...)
	op := m.Opcode
	h.seq.add(14)
	h.add(evRec{Kind: "msg", Opcode: int(op), Payload: p})
	if h.keepMsg {
		h.mu.Lock()
		h.held = append(h.held, m)
		h.mu.Unlock()
	} else {
		_ = m.Close()
	}
	if h.onMsg != nil {
		h.onMsg(s, op, p)
	}
}

// close status observed by the application: (isCloseError, code, reason) or the error text
func closeInfo(e error) (bool, int, []byte, string) {
	if e == nil {
		return false, 0, nil, "<nil>"
	}
	var ce *gws.CloseError
	if errors.As(e, &ce) {
		return true, int(ce.Code), ce.Reason, e.Error()
	}
	return false, 0, nil, e.Error()
}

// ---------------------------------------------------------------------------------------------
// putting gws connections on the transport

const testKey = "dGhlIHNhbXBsZSBub25jZQ=="

// serverConn upgrades a synthetic request on conn; what the server writes (101 response first) is in the tap.
func serverConn(opt *gws.ServerOption, h gws.Event, conn *memConn, extra http.Header) (*gws.Conn, error) {
	up := gws.NewUpgrader(h, opt)
	return serverConnWith(up, conn, extra)
}

func serverConnWith(up *gws.Upgrader, conn *memConn, extra http.Header) (*gws.Conn, error) {
	hd := http.Header{}
	hd.Set("Connection", "Upgrade")
	hd.Set("Upgrade", "websocket")
	hd.Set("Sec-WebSocket-Version", "13")
	hd.Set("Sec-WebSocket-Key", testKey)
	for k, v := range extra {
		hd[http.CanonicalHeaderKey(k)] = v
	}
	r := &http.Request{Method: "GET", Header: hd, Proto: "HTTP/1.1", ProtoMajor: 1, ProtoMinor: 1}
	br := bufio.NewReaderSize(conn, 4096)
	return up.UpgradeFromConn(conn, br, r)
}

// clientConn runs NewClientFromConn against a scripted server: when the request has been written,
// respond(req) gives the raw response bytes to feed (nil = default valid 101 echoing `extensions`).
func clientConn(opt *gws.ClientOption, h gws.Event, conn *memConn, extensions string, respond func(req *http.Request) []byte) (*gws.Conn, *http.Response, error) {
	var acc []byte
	var done bool
	conn.mu.Lock()
	conn.onWrite = func(b []byte) {
		if done {
			return
		}
		acc = append(acc, b...)
		if i := bytes.Index(acc, []byte("\r\n\r\n")); i >= 0 {
			done = true
			req, err := http.ReadRequest(bufio.NewReader(bytes.NewReader(acc)))
			if err != nil {
				conn.setEOF()
				return
			}
			var resp []byte
			if respond != nil {
				resp = respond(req)
			} else {
				resp = defaultResponse(req, extensions, "")
			}
			conn.feed(resp)
		}
	}
	conn.mu.Unlock()
	if opt.Addr == "" {
		opt.Addr = "ws://mem.test/"
	}
	c, resp, err := gws.NewClientFromConn(h, opt, conn)
	conn.mu.Lock()
	conn.onWrite = nil
	conn.mu.Unlock()
	return c, resp, err
}

func defaultResponse(req *http.Request, extensions, subprotocol string) []byte {
	var b strings.Builder
	b.WriteString("HTTP/1.1 101 Switching Protocols\r\nUpgrade: websocket\r\nConnection: Upgrade\r\n")
	fmt.Fprintf(&b, "Sec-WebSocket-Accept: %s\r\n", gws.VerifComputeAcceptKey(req.Header.Get("Sec-WebSocket-Key")))
	if extensions != "" {
		fmt.Fprintf(&b, "Sec-WebSocket-Extensions: %s\r\n", extensions)
	}
	if subprotocol != "" {
		fmt.Fprintf(&b, "Sec-WebSocket-Protocol: %s\r\n", subprotocol)
	}
	b.WriteString("\r\n")
	return []byte(b.String())
}

// gwsPair performs a real gws-to-gws handshake over a memPipe; returns (server conn, client conn, server tap, client tap).
func gwsPair(sopt *gws.ServerOption, copt *gws.ClientOption, sh, ch gws.Event) (*gws.Conn, *gws.Conn, *memConn, *memConn, error) {
	return gwsPairWith(gws.NewUpgrader(sh, sopt), copt, ch)
}

// gwsPairWith: a real handshake between a client and a given (possibly long-lived) Upgrader
func gwsPairWith(up *gws.Upgrader, copt *gws.ClientOption, ch gws.Event) (*gws.Conn, *gws.Conn, *memConn, *memConn, error) {
	sc, cc := memPipe()
	type res struct {
		c   *gws.Conn
		err error
	}
	srvCh := make(chan res, 1)
	go func() {
		br := bufio.NewReaderSize(sc, 4096)
		r, err := http.ReadRequest(br)
		if err != nil {
			srvCh <- res{nil, err}
			return
		}
		c, err := up.UpgradeFromConn(sc, br, r)
		srvCh <- res{c, err}
	}()
	if copt.Addr == "" {
		copt.Addr = "ws://mem.test/"
	}
	cl, _, cerr := gws.NewClientFromConn(ch, copt, cc)
	sr := <-srvCh
	if cerr != nil {
		return nil, nil, sc, cc, cerr
	}
	if sr.err != nil {
		return nil, nil, sc, cc, sr.err
	}
	return sr.c, cl, sc, cc, nil
}

// strip the HTTP head (up to and including the blank line) from a tap
func afterHTTP(b []byte) []byte {
	if i := bytes.Index(b, []byte("\r\n\r\n")); i >= 0 {
		return b[i+4:]
	}
	return b
}

// runWithTimeout runs f and reports whether it returned within d.
func runWithTimeout(d time.Duration, f func()) bool {
	done := make(chan struct{})
	go func() { defer close(done); f() }()
	select {
	case <-done:
		return true
	case <-time.After(d):
		return false
	}
}

func minI(a, b int) int {
	if a < b {
		return a
	}
	return b
}
