package main

import (
	"bytes"
	"fmt"
	"os"
	"strings"
	"sync"
	"time"

	"github.com/lxzan/gws"
)

func init() { runners["C08"] = runC08 }

// observable actions of one call, as the codes of coq/Skel/Accept.v
func obsSince(tap *memConn, from int) V {
	tap.mu.Lock()
	ops := append([]opRec(nil), tap.ops[from:]...)
	tap.mu.Unlock()
	out := VL{}
	for _, o := range ops {
		switch o.Kind {
		case "W":
			code := 1 // a failed Write is still an attempt to put a frame on the wire (kind unknown: the skeleton decides)
			if len(o.Head) > 0 {
				if o.Head[0]&15 == 8 {
					code = 2
				}
				if bytes.HasPrefix(o.Head, []byte("HTTP/")) || bytes.HasPrefix(o.Head, []byte("GET ")) {
					code = 5
				}
			} else if o.Err {
				code = 0
			}
			out = append(out, VN(code))
		case "C":
			out = append(out, VN(3))
		case "D":
			out = append(out, VN(4))
		}
	}
	return out
}

func opsLen(tap *memConn) int {
	tap.mu.Lock()
	defer tap.mu.Unlock()
	return len(tap.ops)
}

// c08ConcurrentConnections: several connections of one process write at the same time (clients draw their mask keys from
// one package-level generator, servers share the buffer pool and the compressor pool): every connection's wire is whole
// frames carrying exactly its own messages.  Under the race detector (thorough tier, and the "race-mini" pass of the quick
// tier) this is also where unsynchronised shared state shows.
func c08ConcurrentConnections(c *Ctx) error {
	for _, server := range []bool{false, true} {
		for _, pmd := range []bool{false, true} {
			const nconn, nmsg = 4, 300
			type one struct {
				conn *gws.Conn
				tap  *memConn
			}
			var cs []one
			for i := 0; i < nconn; i++ {
				conn, tap, err := connSpec{Server: server, PMD: pmd}.open(&recHandler{})
				if err != nil {
					return err
				}
				cs = append(cs, one{conn, tap})
			}
			var wg sync.WaitGroup
			start := make(chan struct{})
			for i := range cs {
				wg.Add(1)
				go func(i int) {
					defer wg.Done()
					<-start
					for k := 0; k < nmsg; k++ {
						pl := []byte(fmt.Sprintf("connection %d message %03d %s", i, k, strings.Repeat("x", k%40)))
						switch k % 3 {
						case 0:
							_ = cs[i].conn.WriteMessage(gws.OpcodeText, pl)
						case 1:
							_ = cs[i].conn.Writev(gws.OpcodeText, pl[:5], pl[5:])
						default:
							_ = cs[i].conn.WritePing(pl[:20])
							_ = cs[i].conn.WriteMessage(gws.OpcodeBinary, pl)
						}
					}
				}(i)
			}
			close(start)
			wg.Wait()
			for i := range cs {
				tag := fmt.Sprintf("concurrent connections server=%v pmd=%v connection=%d", server, pmd, i)
				rx := &rfcReceiver{server: server}
				ms, problem := rx.receive(cs[i].tap.written())
				n := 0
				for _, m := range ms {
					if m.Opcode < 8 {
						if !bytes.HasPrefix(m.Payload, []byte(fmt.Sprintf("connection %d message %03d ", i, n))) {
							problem = fmt.Sprintf("data message %d on the wire is %q", n, head(m.Payload, 40))
							break
						}
						n++
					}
				}
				if problem != "" || n != nmsg {
					c.oracleFail(fmt.Sprintf("connections writing at the same time: the wire of one of them is not its own messages in order (%d of %d; %s) [%s]", n, nmsg, problem, tag), "wire-not-frames", map[string]any{"tag": tag})
				}
				_ = cs[i].tap.Close()
				c.count(tag, true, "kind=concurrent-connections")
			}
		}
	}
	return nil
}

func runC08(c *Ctx) error {
	if err := c08ConcurrentConnections(c); err != nil {
		return err
	}
	if c.Tier == "race-mini" {
		c.Sum.Rule = "race-mini: several connections writing at the same time, under the Go race detector"
		return nil
	}
	c.Sum.Rule = "(a) translator validation: for every synchronous write API x both roles x compression on/off x {valid call, content-rejected call, call after close, transport failing at the first write}, the sequence of transport operations observed on the real code must be the observable projection of an execution of the regenerated skeleton of that API (coq/Skel/Accept.v); (b) schedules: 2-6 goroutines using a random mix of all write APIs with tagged payloads on one connection whose transport parks every Write until released in random order: the wire must be whole frames, each message's frames contiguous, every call that reported success exactly one complete message, every rejected call none; non-trivial = all; distinct by scenario"
	// ---- (a)
	type call struct {
		name string
		f    func(conn *gws.Conn) error
	}
	calls := []call{
		{"Conn_WriteMessage", func(conn *gws.Conn) error { return conn.WriteMessage(gws.OpcodeBinary, []byte("hello world")) }},
		{"Conn_WriteString", func(conn *gws.Conn) error { return conn.WriteString("hello") }},
		{"Conn_Writev", func(conn *gws.Conn) error { return conn.Writev(gws.OpcodeText, []byte("a"), []byte("b")) }},
		{"Conn_WritePing", func(conn *gws.Conn) error { return conn.WritePing([]byte("p")) }},
		{"Conn_WritePong", func(conn *gws.Conn) error { return conn.WritePong(nil) }},
		{"Conn_WriteFile", func(conn *gws.Conn) error {
			return conn.WriteFile(gws.OpcodeBinary, newChunkReader([][]byte{bytes.Repeat([]byte("x"), 131072), []byte("tail")}, "sep"))
		}},
		{"Conn_WriteClose", func(conn *gws.Conn) error { return conn.WriteClose(1000, []byte("bye")) }},
		{"Conn_SetDeadline", func(conn *gws.Conn) error { return conn.SetDeadline(time.Time{}) }},
		{"Conn_WriteMessage", func(conn *gws.Conn) error { return conn.WriteMessage(gws.OpcodeText, []byte{0xff}) }},               // rejected: encoding
		{"Conn_Writev", func(conn *gws.Conn) error { return conn.Writev(gws.OpcodeBinary, make([]byte, 600), make([]byte, 600)) }}, // rejected: size (limit 1000)
	}
	for _, server := range []bool{true, false} {
		for _, pmd := range []bool{false, true} {
			for ci, cl := range calls {
				for mode := 0; mode < 3; mode++ { // 0 plain, 1 after close, 2 transport fails on first write
					spec := connSpec{Server: server, PMD: pmd, SrvTO: pmd, CliTO: pmd, SrvBits: 10, CliBits: 10, Utf8: true, WLimit: 1000}
					if cl.name == "Conn_WriteFile" {
						spec.WLimit = 0
					}
					conn, tap, err := spec.open(&recHandler{})
					if err != nil {
						return err
					}
					if mode == 1 {
						_ = conn.WriteClose(1000, nil)
					}
					if mode == 2 {
						tap.mu.Lock()
						tap.failWrite = tap.nWrite
						tap.mu.Unlock()
					}
					from := opsLen(tap)
					var cerr error
					func() {
						defer func() {
							if r := recover(); r != nil {
								cerr = fmt.Errorf("panic: %v", r)
							}
						}()
						cerr = cl.f(conn)
					}()
					name := cl.name + "_" + roleName(server)
					obs := obsSince(tap, from)
					tag := fmt.Sprintf("skel %s pmd=%v mode=%d call=%d err=%v", name, pmd, mode, ci, cerr)
					c.addCase("SKEL", VL{VB([]byte(name)), obs}, tag)
					c.count(tag, true, "kind=trace", fmt.Sprintf("mode=%d", mode))
				}
			}
		}
	}
	// ---- (b)
	iters := 120
	if !c.quick() {
		iters = 20000
	}
	apis := []string{"message", "writev", "async", "broadcast", "file", "ping", "writevasync", "string", "pong", "broadcast-close-early"}
	for it := 0; it < iters; it++ {
		server := it%2 == 0
		spec := connSpec{Server: server, PMD: it%3 != 0, SrvTO: it%6 < 2, CliTO: it%6 < 2, SrvBits: 11, CliBits: 11, Utf8: true, WLimit: 300000}
		conn, tap, err := spec.open(&recHandler{})
		if err != nil {
			return err
		}
		pd := conn.VerifPD()
		rx := &rfcReceiver{server: server}
		if pd.Enabled {
			if server {
				rx.takeover, rx.bits = pd.ServerContextTakeover, pd.ServerMaxWindowBits
			} else {
				rx.takeover, rx.bits = pd.ClientContextTakeover, pd.ClientMaxWindowBits
			}
		}
		gate := make(chan struct{}, 256)
		entered := make(chan int, 256)
		tap.mu.Lock()
		tap.gate, tap.gateEntered = gate, entered
		tap.mu.Unlock()
		ng := 2 + c.Rng.Intn(5)
		type rec struct {
			api     string
			opcode  int
			payload []byte
			res     int
		}
		recs := make([]*rec, 0, ng*3)
		var wg sync.WaitGroup
		var mu sync.Mutex
		for g := 0; g < ng; g++ {
			ncalls := 1 + c.Rng.Intn(3)
			var mine []*rec
			for k := 0; k < ncalls; k++ {
				api := apis[c.Rng.Intn(len(apis))]
				op := 2
				size := []int{0, 10, 200, 2000, 140000}[c.Rng.Intn(5)]
				if api == "ping" {
					op, size = 9, c.Rng.Intn(100)
				}
				if api == "pong" {
					op, size = 10, c.Rng.Intn(100)
				}
				if api == "string" {
					op = 1
				}
				tagb := []byte(fmt.Sprintf("<<g%d-k%d-%s>>", g, k, api))
				p := append(append([]byte(nil), tagb...), bytes.Repeat([]byte{byte('a' + g)}, size)...)
				if api == "ping" || api == "pong" {
					p = p[:minInt(len(p), 125)]
				}
				if c.Rng.Intn(25) == 0 && op == 1 {
					p = append(p, 0xff) // a call that must be rejected for its content
				}
				r := &rec{api: api, opcode: op, payload: p}
				mine = append(mine, r)
				recs = append(recs, r)
			}
			wg.Add(1)
			go func(mine []*rec) {
				defer wg.Done()
				for _, r := range mine {
					op := sendOp{API: r.api, Opcode: r.opcode, Slices: splitEven(r.payload, 1+len(r.payload)%3)}
					if r.api == "file" {
						// the last bytes arrive either before io.EOF or together with it
						op.Reader = newChunkReader(splitEven(r.payload, 1+len(r.payload)%4), []string{"sep", "with"}[len(r.payload)%2])
					}
					res := rawSend(conn, op)
					mu.Lock()
					r.res = res
					mu.Unlock()
				}
			}(mine)
		}
		stop := make(chan struct{})
		go func() {
			for {
				select {
				case <-stop:
					return
				case <-entered:
				default:
				}
				select {
				case gate <- struct{}{}:
				case <-stop:
					return
				}
				if c.Rng.Intn(3) == 0 {
					time.Sleep(time.Duration(c.Rng.Intn(80)) * time.Microsecond)
				}
			}
		}()
		if it%3 == 1 {
			// a scribbler poisons every pooled buffer that is free: harmless unless a writer still uses a buffer it has released
			go func() {
				for {
					select {
					case <-stop:
						return
					default:
						scribble(1)
						time.Sleep(200 * time.Microsecond)
					}
				}
			}()
		}
		ok := runWithTimeout(20*time.Second, wg.Wait)
		close(stop)
		tag := fmt.Sprintf("schedule it=%d server=%v pmd=%v goroutines=%d calls=%d", it, server, pd.Enabled, ng, len(recs))
		replay := map[string]any{"tag": tag, "wire_prefix": fmt.Sprintf("%x", head(tap.written(), 300))}
		if !ok {
			c.oracleFail("concurrent writers did not finish within 20 s ["+tag+"]", "writers-hang", replay)
			continue
		}
		// the wire: whole frames, contiguous messages
		wire := tap.written()
		fs, rest, perr := parseFrames(wire)
		if perr != nil || len(rest) != 0 {
			c.oracleFail("bytes on the wire are not a concatenation of whole frames ["+tag+"]", "wire-not-frames", replay)
			continue
		}
		for _, wc := range tap.writeCalls() {
			if f1, r1, e1 := parseFrames(wc); e1 != nil || len(r1) != 0 || len(f1) != 1 {
				c.oracleFail("one transport Write does not carry exactly one whole frame ["+tag+"]", "write-not-one-frame", replay)
				break
			}
		}
		// drop a trailing Close frame (a content-rejected call fails the connection)
		var dataFrames []frame
		sawClose := false
		for _, f := range fs {
			if f.Opcode != 8 {
				dataFrames = append(dataFrames, f)
			} else {
				sawClose = true
			}
		}
		msgs, problem := groupMessages(dataFrames)
		if problem == "unfinished fragmented message at end of stream" && sawClose {
			// a content-rejected call failed the connection while a streamed send was in progress: that send stops at
			// its next frame and returns the closed error (checked below: a call that reports success must be whole)
			problem = ""
		}
		if problem != "" {
			c.oracleFail("frames of different messages are interleaved: "+problem+" ["+tag+"]", "frames-interleaved", replay)
			continue
		}
		// inflate in wire order (context takeover), then match by tag
		seen := map[string]int{}
		for i := range msgs {
			p := msgs[i].Payload
			if msgs[i].Opcode < 8 && msgs[i].Compressed {
				var dict []byte
				if rx.takeover {
					dict = lastN(rx.history, 1<<uint(rx.bits))
				}
				out, err := rfc7692Inflate(p, dict)
				if err != nil {
					c.oracleFail("a message written under concurrency does not inflate: "+err.Error()+" ["+tag+"]", "concurrent-inflate", replay)
					break
				}
				if rx.takeover {
					rx.history = append(rx.history, out...)
				}
				p = out
			}
			seen[string(p)]++
		}
		for _, r := range recs {
			n := seen[string(r.payload)]
			rejected := r.opcode == 1 && !goUtf8(r.payload)
			switch {
			case rejected && (n != 0 || r.res == 0):
				c.oracleFail(fmt.Sprintf("a call rejected for its content put its message on the wire %d time(s), result %d [%s]", n, r.res, tag), "rejected-on-wire", replay)
			case !rejected && r.res == 0 && n != 1:
				c.oracleFail(fmt.Sprintf("%s reported success but its message is on the wire %d time(s) [%s]", r.api, n, tag), "success-not-once", replay)
			case !rejected && r.res == 100 && !sawClose && n != 1:
				c.oracleFail(fmt.Sprintf("%s returned nil and the connection was never closed, but its message is on the wire %d time(s) [%s]", r.api, n, tag), "broadcast-not-once", replay)
			case !rejected && r.res != 0 && n > 1:
				c.oracleFail(fmt.Sprintf("%s failed (%d) but its message is on the wire %d times [%s]", r.api, r.res, n, tag), "failed-duplicated", replay)
			}
		}
		c.count(tag, true, "kind=schedule", fmt.Sprintf("goroutines=%d", ng))
	}
	// ---- (c) directed schedule: an asynchronous broadcast job waiting behind a parked writer while its Broadcaster is closed
	if err := parkedBroadcastScenario(c); err != nil {
		return err
	}
	if err := sharedBroadcastFrameScenario(c); err != nil {
		return err
	}
	// ---- (d) a streamed send whose io.Reader fails after a non-final frame has gone out, then another write: whatever the
	// second call returns, the wire must not show a new data message inside the unfinished one
	for _, server := range []bool{true, false} {
		for _, pmd := range []bool{false, true} {
			spec := connSpec{Server: server, PMD: pmd}
			conn, tap, err := spec.open(&recHandler{})
			if err != nil {
				return err
			}
			r1 := rawSend(conn, sendOp{API: "file", Opcode: 2, Reader: newChunkReader([][]byte{randBytes(c.Rng, 131072), randBytes(c.Rng, 131072), []byte("tail")}, "fail")})
			r2 := rawSend(conn, sendOp{API: "string", Opcode: 1, Slices: [][]byte{[]byte("hello")}})
			r3 := rawSend(conn, sendOp{API: "async", Opcode: 2, Slices: [][]byte{[]byte("again")}})
			tag := fmt.Sprintf("reader fails mid-stream server=%v pmd=%v results=%d,%d,%d", server, pmd, r1, r2, r3)
			replay := map[string]any{"tag": tag, "wire_prefix": fmt.Sprintf("%x", head(tap.written(), 32))}
			fs, rest, perr := parseFrames(tap.written())
			if perr != nil || len(rest) != 0 {
				c.oracleFail("bytes on the wire are not whole frames ["+tag+"]", "wire-not-frames", replay)
			} else {
				var data []frame
				for _, f := range fs {
					if f.Opcode != 8 {
						data = append(data, f)
					}
				}
				if _, problem := groupMessages(data); problem != "" && problem != "unfinished fragmented message at end of stream" {
					c.oracleFail("after a streamed send whose reader failed: "+problem+" ["+tag+"]", "frames-interleaved", replay)
				}
				if r1 == 0 {
					c.oracleFail("WriteFile reported success although its reader failed ["+tag+"]", "success-not-once", replay)
				}
			}
			_ = tap.Close()
			c.count(tag, true, "kind=reader-fails-mid-stream")
			// a streamed send with a write limit between one segment and the whole stream: the limit applies per frame, so
			// the call either succeeds with one complete message, or - if it is rejected for its size - leaves no byte of it
			{
				lspec := connSpec{Server: server, PMD: pmd, WLimit: 262144}
				conn4, tap4, err := lspec.open(&recHandler{})
				if err != nil {
					return err
				}
				data := randBytes(c.Rng, 3*131072)
				res := rawSend(conn4, sendOp{API: "file", Opcode: 2, Reader: newChunkReader(splitEven(data, 3), "sep")})
				tag4 := fmt.Sprintf("streamed send above the write limit in total server=%v pmd=%v result=%d", server, pmd, res)
				fs, rest, perr := parseFrames(tap4.written())
				var dataFrames []frame
				for _, f := range fs {
					if f.Opcode < 8 {
						dataFrames = append(dataFrames, f)
					}
				}
				switch {
				case perr != nil || len(rest) != 0:
					c.oracleFail("bytes on the wire are not whole frames ["+tag4+"]", "wire-not-frames", map[string]any{"tag": tag4})
				case res == 0:
					rx := &rfcReceiver{server: server}
					if msgs, problem := rx.receive(tap4.written()); problem != "" || len(msgs) != 1 || !bytes.Equal(msgs[0].Payload, data) {
						c.oracleFail(fmt.Sprintf("WriteFile reported success but the wire does not hold exactly that message (%s, %d messages) [%s]", problem, len(msgs), tag4), "success-not-once", map[string]any{"tag": tag4})
					}
				case len(dataFrames) != 0:
					c.oracleFail(fmt.Sprintf("WriteFile was rejected (result %d) and yet %d frame(s) of the message are on the wire [%s]", res, len(dataFrames), tag4), "rejected-on-wire", map[string]any{"tag": tag4})
				}
				_ = tap4.Close()
				c.count(tag4, true, "kind=stream-above-limit")
			}
			// a transport that accepts part of a frame and then fails: the call must not report success (compressed frames too:
			// the window update behind the write must not hide the error), and later calls are rejected
			for _, fault := range []string{"short-write", "write-error"} {
				conn3, tap3, err := spec.open(&recHandler{})
				if err != nil {
					return err
				}
				tap3.mu.Lock()
				if fault == "short-write" {
					tap3.shortWrite = tap3.nWrite
				} else {
					tap3.failWrite = tap3.nWrite
				}
				tap3.mu.Unlock()
				payload := bytes.Repeat([]byte("compressible payload "), 100)
				r1 := rawSend(conn3, sendOp{API: "message", Opcode: 1, Slices: [][]byte{payload}})
				r2 := rawSend(conn3, sendOp{API: "message", Opcode: 1, Slices: [][]byte{[]byte("later")}})
				r3 := rawSend(conn3, sendOp{API: "async", Opcode: 2, Slices: [][]byte{[]byte("later async")}})
				tag3 := fmt.Sprintf("transport fault inside a frame server=%v pmd=%v fault=%s results=%d,%d,%d", server, pmd, fault, r1, r2, r3)
				if r1 == 0 || r2 == 0 || r3 == 0 {
					c.oracleFail(fmt.Sprintf("a write whose transport write failed part-way, or a write after it, reported success [%s]", tag3), "success-not-once", map[string]any{"tag": tag3})
				}
				_ = tap3.Close()
				c.count(tag3, true, "kind=fault-inside-frame")
			}
			// a streamed send of several frames over a transport whose k-th frame write fails ONCE (an expired write deadline
			// that another goroutine then extends, a transient error) while later writes would succeed: success is reported
			// iff the whole message is on the wire
			for k := 0; k < 4; k++ {
				conn5, tap5, err := spec.open(&recHandler{})
				if err != nil {
					return err
				}
				data := randBytes(c.Rng, 5*131072+777) // incompressible: at least five segments either way
				tap5.mu.Lock()
				tap5.failWrite = tap5.nWrite + k
				tap5.writeErr = os.ErrDeadlineExceeded
				tap5.mu.Unlock()
				nb := tap5.numWrites()
				res := rawSend(conn5, sendOp{API: "file", Opcode: 2, Reader: newChunkReader(splitEven(data, 3), "sep")})
				tag5 := fmt.Sprintf("streamed send, frame write #%d fails once server=%v pmd=%v result=%d", k, server, pmd, res)
				if res == 0 {
					var wire []byte
					for _, w := range tap5.writeCalls()[nb:] {
						wire = append(wire, w...)
					}
					rx := &rfcReceiver{server: server}
					msgs, problem := rx.receive(wire)
					var dataMsgs []wireMsg
					for _, m := range msgs {
						if m.Opcode < 8 {
							dataMsgs = append(dataMsgs, m)
						}
					}
					if problem != "" || len(dataMsgs) != 1 || !bytes.Equal(dataMsgs[0].Payload, data) {
						c.oracleFail(fmt.Sprintf("WriteFile reported success although one of its frame writes failed; the wire does not hold the message (%s, %d data messages) [%s]", problem, len(dataMsgs), tag5), "success-not-once", map[string]any{"tag": tag5})
					}
				}
				_ = tap5.Close()
				c.count(tag5, true, "kind=stream-transient-fault")
			}
			// a reader that returns its last bytes TOGETHER with io.EOF (gzip/flate readers, HTTP bodies, iotest.DataErrReader)
			for _, sizes := range [][]int{{1}, {1000, 500}, {131072, 7}, {131072, 131072, 1}} {
				conn2, tap2, err := spec.open(&recHandler{})
				if err != nil {
					return err
				}
				var chunks [][]byte
				for _, n := range sizes {
					chunks = append(chunks, randBytes(c.Rng, n))
				}
				want := joinSlices(chunks)
				res := rawSend(conn2, sendOp{API: "file", Opcode: 2, Reader: newChunkReader(chunks, "with")})
				tag2 := fmt.Sprintf("last bytes with io.EOF server=%v pmd=%v chunks=%v result=%d", server, pmd, sizes, res)
				rx := &rfcReceiver{server: server}
				msgs, problem := rx.receive(tap2.written())
				switch {
				case res != 0 || problem != "" || len(msgs) != 1:
					c.oracleFail(fmt.Sprintf("streamed send failed or is not one message on the wire (result %d, %s, %d messages) [%s]", res, problem, len(msgs), tag2), "success-not-once", map[string]any{"tag": tag2})
				case !bytes.Equal(msgs[0].Payload, want):
					c.oracleFail(fmt.Sprintf("WriteFile reported success for %d bytes, the message on the wire carries %d [%s]", len(want), len(msgs[0].Payload), tag2), "success-not-once", map[string]any{"tag": tag2})
				}
				_ = tap2.Close()
				c.count(tag2, true, "kind=data-with-eof")
			}
		}
	}
	return nil
}

func minInt(a, b int) int {
	if a < b {
		return a
	}
	return b
}

// rawSend: like doSend but without touching the windows / tap (safe under concurrency); returns the result code
func rawSend(conn *gws.Conn, op sendOp) (res int) {
	defer func() {
		if r := recover(); r != nil {
			res = 9
		}
	}()
	var err error
	switch op.API {
	case "message":
		err = conn.WriteMessage(gws.Opcode(op.Opcode), joinSlices(op.Slices))
	case "ping":
		err = conn.WritePing(joinSlices(op.Slices))
	case "pong":
		err = conn.WritePong(joinSlices(op.Slices))
	case "string":
		err = conn.WriteString(string(joinSlices(op.Slices)))
	case "writev":
		err = conn.Writev(gws.Opcode(op.Opcode), op.Slices...)
	case "async":
		ch := make(chan error, 1)
		conn.WriteAsync(gws.Opcode(op.Opcode), joinSlices(op.Slices), func(e error) { ch <- e })
		err = waitErr(ch)
	case "writevasync":
		ch := make(chan error, 1)
		conn.WritevAsync(gws.Opcode(op.Opcode), op.Slices, func(e error) { ch <- e })
		err = waitErr(ch)
	case "file":
		err = conn.WriteFile(gws.Opcode(op.Opcode), op.Reader)
	case "broadcast", "broadcast-close-early":
		b := gws.NewBroadcaster(gws.Opcode(op.Opcode), joinSlices(op.Slices))
		err = b.Broadcast(conn)
		if op.API == "broadcast-close-early" {
			// ... or has started and waits for the connection's write lock behind a parked writer
			time.Sleep([]time.Duration{0, 50 * time.Microsecond, 300 * time.Microsecond, time.Millisecond}[len(op.Slices[0])%4])
			_ = b.Close() // as documented: after the Broadcast calls have returned - the queued job may still be pending
		}
		done := make(chan struct{})
		conn.Async(func() { close(done) })
		select {
		case <-done:
		case <-time.After(10 * time.Second):
		}
		_ = b.Close()
		if err == nil {
			// Broadcast reports only frame-generation errors; whether the frame was written is not reported: treat as "unknown"
			return 100
		}
	}
	r, _ := errCode(err)
	return r
}
