package main

// Inbound machinery shared by C03, C04, C13 (and the read side of C06/C16): feed a byte stream to a real
// connection under a chosen chunking, observe callbacks / Close frame / teardown, judge it with an
// independent RFC 6455 + 7692 receiver (the property oracle), and record the case for the Coq model.

import (
	"bytes"
	"compress/flate"
	"errors"
	"fmt"
	"io"
	"runtime"
	"sort"
	"time"

	kflate "github.com/klauspost/compress/flate"
	"github.com/lxzan/gws"
)

type inflateRec struct {
	Dict, Src []byte
	OK        bool
	Out       []byte
}

type specOutcome struct {
	Events       []evRec
	Kind         string       // "more", "fail", "peerclose"
	Allowed      map[int]bool // acceptable close statuses when Kind == fail (or header violations when Kind == more)
	PeerCode     int
	PeerReason   []byte
	ReplyAllowed map[int]bool // acceptable reply statuses (0 = empty body)
	Inflates     []inflateRec
	Why          string
}

type inSpec struct {
	connSpec
}

// direction parameters of the inbound stream for a connection with negotiated pd
func dpsParams(conn *gws.Conn) (takeover bool, bits int) {
	pd := conn.VerifPD()
	if !pd.Enabled {
		return false, 0
	}
	if conn.VerifIsServer() {
		return pd.ClientContextTakeover, pd.ClientMaxWindowBits
	}
	return pd.ServerContextTakeover, pd.ServerMaxWindowBits
}

func inflateLimited(src, dict []byte, limit int) ([]byte, bool) {
	out, err := rfc7692Inflate(src, dict)
	if err != nil || len(out) > limit {
		return nil, false
	}
	return out, true
}

// specReceive: the reference receiver.  server = role of the RECEIVER.
func specReceive(server, pmd bool, limit int, utf8on bool, takeover bool, bits int, stream []byte) specOutcome {
	var o specOutcome
	var history []byte
	inProgress := false
	var curOp int
	var curComp bool
	var curBuf []byte
	fail := func(why string, codes ...int) specOutcome {
		o.Kind, o.Why = "fail", why
		o.Allowed = map[int]bool{}
		for _, c := range codes {
			o.Allowed[c] = true
		}
		return o
	}
	deliver := func(op int, comp bool, data []byte) (bool, specOutcome) {
		if comp {
			var dict []byte
			if takeover {
				dict = lastN(history, 1<<uint(bits))
			}
			src := append(append([]byte(nil), data...), 0x00, 0x00, 0xff, 0xff, 0x01, 0x00, 0x00, 0xff, 0xff)
			out, ok := inflateLimited(data, dict, limit)
			o.Inflates = append(o.Inflates, inflateRec{Dict: append([]byte(nil), dict...), Src: src, OK: ok, Out: out})
			if !ok {
				return false, fail("compressed message does not inflate within the limit", 1009, 1011, 1007, 1002)
			}
			if takeover {
				history = append(history, out...)
				if len(history) > 1<<16 {
					history = append([]byte(nil), history[len(history)-(1<<15):]...)
				}
			}
			data = out
		}
		if utf8on && op == 1 && !goUtf8(data) {
			return false, fail("text message is not valid UTF-8", 1007)
		}
		o.Events = append(o.Events, evRec{Kind: "msg", Opcode: op, Payload: append([]byte(nil), data...)})
		return true, o
	}
	b := stream
	for {
		if len(b) == 0 {
			o.Kind = "more"
			return o
		}
		// header-level view first: violations visible in the header alone may be answered before the payload arrives
		hv := headerViolations(b, server, pmd, limit)
		f, n, err := parseFrame(b)
		if err == io.ErrUnexpectedEOF {
			o.Kind = "more"
			o.Allowed = hv
			return o
		}
		if err != nil { // 64-bit length with the top bit set
			return fail("frame length with the most significant bit set", 1009, 1002)
		}
		viol := map[int]bool{}
		for k := range hv {
			viol[k] = true
		}
		why := ""
		if f.Opcode < 8 && len(hv) == 0 {
			if f.Opcode == 0 && !inProgress {
				viol[1002], why = true, "continuation frame with no message in progress"
			}
			if f.Opcode != 0 && inProgress {
				viol[1002], why = true, "new data frame inside an unfinished message"
			}
			if inProgress && f.Opcode == 0 && len(curBuf)+len(f.Payload) > limit {
				viol[1009], why = true, "fragments exceed the read limit"
			}
		}
		if len(viol) > 0 {
			codes := []int{}
			for k := range viol {
				codes = append(codes, k)
			}
			sort.Ints(codes)
			return fail("violating frame: "+why+fmt.Sprint(codes), codes...)
		}
		b = b[n:]
		switch {
		case f.Opcode == 9:
			o.Events = append(o.Events, evRec{Kind: "ping", Opcode: 9, Payload: f.Payload})
		case f.Opcode == 10:
			o.Events = append(o.Events, evRec{Kind: "pong", Opcode: 10, Payload: f.Payload})
		case f.Opcode == 8:
			o.Kind = "peerclose"
			o.ReplyAllowed = map[int]bool{}
			body := f.Payload
			switch {
			case len(body) == 0:
				o.ReplyAllowed[0] = true
			case len(body) == 1:
				o.PeerCode = int(body[0])
				o.ReplyAllowed[1002] = true
			default:
				code := int(body[0])<<8 | int(body[1])
				o.PeerCode, o.PeerReason = code, body[2:]
				forbidden := code < 1000 || (code >= 1004 && code <= 1006) || code == 1015 || (code >= 1016 && code <= 2999) || code >= 5000
				badUtf8 := utf8on && !goUtf8(body[2:])
				if forbidden {
					o.ReplyAllowed[1002] = true
				}
				if badUtf8 {
					o.ReplyAllowed[1007] = true
				}
				if !forbidden && !badUtf8 {
					if code >= 3000 && code <= 4999 {
						o.ReplyAllowed[code] = true
					} else {
						o.ReplyAllowed[1000] = true
					}
				}
			}
			return o
		default: // data
			if f.Opcode != 0 {
				if f.Fin {
					if ok, r := deliver(f.Opcode, f.Rsv1, f.Payload); !ok {
						return r
					}
				} else {
					inProgress, curOp, curComp, curBuf = true, f.Opcode, f.Rsv1, append([]byte(nil), f.Payload...)
				}
			} else {
				curBuf = append(curBuf, f.Payload...)
				if f.Fin {
					inProgress = false
					if ok, r := deliver(curOp, curComp, curBuf); !ok {
						return r
					}
					curBuf = nil
				}
			}
		}
	}
}

// headerViolations inspects the (possibly incomplete) first frame of b: protocol violations decidable from the header.
func headerViolations(b []byte, server, pmd bool, limit int) map[int]bool {
	v := map[int]bool{}
	if len(b) < 2 {
		return v
	}
	fin, rsv1, rsv2, rsv3 := b[0]&0x80 != 0, b[0]&0x40 != 0, b[0]&0x20 != 0, b[0]&0x10 != 0
	op := int(b[0] & 15)
	masked := b[1]&0x80 != 0
	lc := int(b[1] & 0x7f)
	if masked != server {
		v[1002] = true
	}
	if rsv2 || rsv3 || (rsv1 && !pmd) || (rsv1 && pmd && (op >= 8 || op == 0)) {
		v[1002] = true
	}
	if (op > 2 && op < 8) || op > 10 {
		v[1002] = true
	}
	if op >= 8 && (!fin || lc > 125) {
		v[1002] = true
	}
	var n uint64 = uint64(lc)
	known := true
	switch lc {
	case 126:
		if len(b) >= 4 {
			n = uint64(b[2])<<8 | uint64(b[3])
		} else {
			known = false
		}
	case 127:
		if len(b) >= 10 {
			n = 0
			for i := 2; i < 10; i++ {
				n = n<<8 | uint64(b[i])
			}
		} else {
			known = false
		}
	}
	if known && (n > uint64(limit) || n>>63 != 0) {
		v[1009] = true
	}
	return v
}

// ---------------------------------------------------------------------------------------------

type inObs struct {
	Events          []evRec
	Kind            int // 0 eof, 1 failed, 2 peer close, 9 panic, 8 hang
	A, C            int
	B               []byte
	CloseErr        string
	Panic           string
	Closes          int // OnClose count
	Opens           int
	TransportClosed bool
	WireAfter       []byte
	PeakAlloc       uint64
	Chunks          int // number of network reads the stream was cut into
}

func cutChunks(c *Ctx, b []byte, mode int) [][]byte {
	switch mode {
	case 0:
		return [][]byte{b}
	case 1: // byte by byte
		out := make([][]byte, 0, len(b))
		for i := range b {
			out = append(out, b[i:i+1])
		}
		return out
	default:
		var out [][]byte
		for len(b) > 0 {
			n := 1 + c.Rng.Intn(min(len(b), 1+c.Rng.Intn(300)))
			out = append(out, b[:n])
			b = b[n:]
		}
		return out
	}
}

func min(a, b int) int {
	if a < b {
		return a
	}
	return b
}

// runInbound opens a connection per spec, feeds the stream and runs ReadLoop to completion.
func runInbound(spec connSpec, chunks [][]byte) (obs inObs, conn *gws.Conn, tap *memConn, err error) {
	h := &recHandler{}
	conn, tap, err = spec.open(h)
	if err != nil {
		return obs, nil, nil, err
	}
	tap.feed(chunks...)
	tap.setEOF()
	obs.Chunks = len(chunks)
	var ms0 runtime.MemStats
	runtime.ReadMemStats(&ms0)
	done := runWithTimeout(20*time.Second, func() {
		defer func() {
			if r := recover(); r != nil {
				obs.Panic = fmt.Sprint(r)
			}
		}()
		conn.ReadLoop()
	})
	var ms1 runtime.MemStats
	runtime.ReadMemStats(&ms1)
	obs.PeakAlloc = ms1.TotalAlloc - ms0.TotalAlloc
	var closeErr error
	for _, e := range h.events() {
		switch e.Kind {
		case "open":
			obs.Opens++
		case "close":
			obs.Closes++
			closeErr = e.Err
		default:
			obs.Events = append(obs.Events, e)
		}
	}
	obs.WireAfter = tap.written()
	obs.TransportClosed, _ = tap.isClosed()
	if !done {
		obs.Kind = 8
		return obs, conn, tap, nil
	}
	if obs.Panic != "" {
		obs.Kind = 9
		return obs, conn, tap, nil
	}
	// the Close frame gws wrote
	status := -1
	if fs, _, perr := parseFrames(obs.WireAfter); perr == nil {
		for _, f := range fs {
			if f.Opcode == 8 {
				if len(f.Payload) >= 2 {
					status = int(f.Payload[0])<<8 | int(f.Payload[1])
				} else {
					status = 0
				}
			}
		}
	}
	isCE, code, reason, text := closeInfo(closeErr)
	obs.CloseErr = text
	switch {
	case isCE:
		obs.Kind, obs.A, obs.B, obs.C = 2, code, reason, status
	// the end of the transport is reported as io.EOF / io.ErrUnexpectedEOF and answered with status 1000; a truncated
	// DEFLATE stream makes the inflater report io.ErrUnexpectedEOF too, but that is a failed message (status 1011)
	case errors.Is(closeErr, io.ErrUnexpectedEOF) && status == 1000:
		obs.Kind, obs.A, obs.C = 0, 1, status
	case errors.Is(closeErr, io.EOF) && status == 1000:
		obs.Kind, obs.A, obs.C = 0, 0, status
	default:
		obs.Kind, obs.A = 1, status
	}
	return obs, conn, tap, nil
}

func eventsVal(evs []evRec) V {
	l := VL{}
	for _, e := range evs {
		k := 0
		switch e.Kind {
		case "ping":
			k = 1
		case "pong":
			k = 2
		}
		l = append(l, VL{VN(k), VN(e.Opcode), VB(e.Payload)})
	}
	return l
}

func sameEvents(a, b []evRec) bool {
	if len(a) != len(b) {
		return false
	}
	for i := range a {
		if a[i].Kind != b[i].Kind || a[i].Opcode != b[i].Opcode || string(a[i].Payload) != string(b[i].Payload) {
			return false
		}
	}
	return true
}

// judgeInbound: the property oracle (C03/C13 clauses) on one observation; returns a description of the violation or "".
func judgeInbound(o specOutcome, obs inObs) (string, string) {
	if obs.Kind == 9 {
		return "read loop panicked: " + obs.Panic, "read-panic"
	}
	if obs.Kind == 8 {
		return "read loop did not return (hang)", "read-hang"
	}
	if obs.Opens != 1 || obs.Closes != 1 {
		return fmt.Sprintf("OnOpen x%d, OnClose x%d (want exactly one each)", obs.Opens, obs.Closes), "lifecycle-count"
	}
	if !obs.TransportClosed {
		return "transport left open after the read loop ended", "transport-open"
	}
	if !sameEvents(o.Events, obs.Events) {
		return fmt.Sprintf("callbacks differ from the longest valid prefix: want %d events, got %d (%s)", len(o.Events), len(obs.Events), o.Why), "events-differ"
	}
	switch o.Kind {
	case "more":
		if obs.Kind == 0 {
			return "", ""
		}
		if obs.Kind == 1 && o.Allowed[obs.A] {
			return "", ""
		}
		return fmt.Sprintf("stream ended inside/at a frame boundary, but connection ended kind=%d status=%d", obs.Kind, obs.A), "eof-handling"
	case "fail":
		if obs.Kind == 1 && o.Allowed[obs.A] {
			return "", ""
		}
		return fmt.Sprintf("%s: connection ended kind=%d status=%d, acceptable statuses %v", o.Why, obs.Kind, obs.A, keys(o.Allowed)), "fail-status"
	case "peerclose":
		if obs.Kind != 2 {
			return fmt.Sprintf("peer Close frame: OnClose did not report a CloseError (kind=%d status=%d)", obs.Kind, obs.A), "close-report"
		}
		if obs.A != o.PeerCode || string(obs.B) != string(o.PeerReason) {
			return fmt.Sprintf("peer Close frame: reported code=%d reason=%q, sent code=%d reason=%q", obs.A, obs.B, o.PeerCode, o.PeerReason), "close-report"
		}
		if !o.ReplyAllowed[obs.C] {
			return fmt.Sprintf("peer Close code=%d: replied %d, acceptable %v", o.PeerCode, obs.C, keys(o.ReplyAllowed)), "close-reply"
		}
	}
	return "", ""
}

func keys(m map[int]bool) []int {
	var k []int
	for x := range m {
		k = append(k, x)
	}
	sort.Ints(k)
	return k
}

// inboundCase records the case for Corr/CheckC03.v.
func inboundCase(c *Ctx, spec connSpec, conn *gws.Conn, stream []byte, o specOutcome, obs inObs, tag string) {
	takeover, bits := dpsParams(conn)
	capN := 0
	if takeover {
		capN = 1 << uint(bits)
	}
	limit := spec.RLimit
	if limit <= 0 {
		limit = 16777216
	}
	itbl := VL{}
	for _, r := range o.Inflates {
		itbl = append(itbl, VL{VB(r.Dict), VB(r.Src), vbool(r.OK), VB(r.Out)})
	}
	utbl := VL{}
	seen := map[string]bool{}
	addU := func(p []byte) {
		ascii := true
		for _, x := range p {
			if x >= 0x80 {
				ascii = false
				break
			}
		}
		if !ascii && !seen[string(p)] {
			seen[string(p)] = true
			utbl = append(utbl, VL{VB(p), vbool(goUtf8(p))})
		}
	}
	// every payload the model may validate: reassembled text messages and close reasons, found by the spec decoder
	collectUtf8Candidates(stream, o, addU)
	out := VL{VN(obs.Kind), VN(0), VN(0), VN(0)}
	switch obs.Kind {
	case 0:
		out = VL{VN(0), VN(obs.A), VN(maxInt(obs.C, 0)), VN(0)}
	case 1:
		out = VL{VN(1), VN(maxInt(obs.A, 0)), VN(0), VN(0)}
	case 2:
		out = VL{VN(2), VN(obs.A), VB(obs.B), VN(maxInt(obs.C, 0))}
	}
	c.addCase("C03", VL{VL{vbool(spec.Server), vbool(conn.VerifPD().Enabled), VZ(limit), vbool(spec.Utf8)}, VN(capN), VB(stream), itbl, utbl, eventsVal(obs.Events), out}, tag)
}

func maxInt(a, b int) int {
	if a > b {
		return a
	}
	return b
}

func collectUtf8Candidates(stream []byte, o specOutcome, add func([]byte)) {
	for _, e := range o.Events {
		if e.Kind == "msg" && e.Opcode == 1 {
			add(e.Payload)
		}
	}
	for _, r := range o.Inflates {
		if r.OK {
			add(r.Out)
		}
	}
	// undelivered text payloads / close reasons: walk the frames
	fs, _, _ := parseFrames(stream)
	var cur []byte
	curText := false
	for _, f := range fs {
		switch {
		case f.Opcode == 8 && len(f.Payload) >= 2:
			add(f.Payload[2:])
		case f.Opcode == 1:
			cur, curText = append([]byte(nil), f.Payload...), true
			if f.Fin {
				add(cur)
			}
		case f.Opcode == 2:
			curText = false
		case f.Opcode == 0 && curText:
			cur = append(cur, f.Payload...)
			add(cur)
		}
	}
}

// allocBudget bounds the bytes allocated (cumulatively, process-wide: runtime.MemStats.TotalAlloc) while one stream is
// read with the given limit.  A buffer grown by doubling up to the limit allocates 2*limit in total, gws holds the frame
// and the reassembled/inflated message, the recording handler copies the payload once more; anything that buffers
// "substantially more than the limit" (an unchecked declared length, an unbounded reassembly or inflate) is orders of
// magnitude above this.
func allocBudget(limit, streamLen, chunks int) uint64 {
	// + the harness's own bookkeeping per network read (operation log entries, chunk headers)
	return uint64(8*limit) + (4 << 20) + uint64(2*streamLen) + uint64(512*chunks)
}

// d18: the pinned klauspost/compress v1.17.5 inflater reports a clean end of stream when the input runs out while it
// reads the extra bits of a distance code (inflate_gen.go: f.err = err, not noEOF(err)); compress/flate and zlib report
// the truncation.  gws then delivers the truncated inflation as a message.  Returns true when a failed inflate of the
// reference receiver is exactly that case: compress/flate says io.ErrUnexpectedEOF, the pinned inflater says nil.
func d18(o specOutcome) bool {
	for _, r := range o.Inflates {
		if r.OK {
			continue
		}
		_, e1 := io.ReadAll(flate.NewReaderDict(bytes.NewReader(r.Src), r.Dict))
		_, e2 := io.ReadAll(kflate.NewReaderDict(bytes.NewReader(r.Src), r.Dict))
		if errors.Is(e1, io.ErrUnexpectedEOF) && e2 == nil {
			return true
		}
	}
	return false
}

// judgeStream = judgeInbound plus the D18 classification (known finding); skipCase: no model case for this stream (the
// model's inflate oracle is the RFC 1951 one)
func judgeStream(o specOutcome, obs inObs) (why, sig string, skipCase bool) {
	why, sig = judgeInbound(o, obs)
	if why != "" && (sig == "events-differ" || sig == "fail-status") && d18(o) {
		return "a compressed message whose DEFLATE stream is cut inside the extra bits of a distance code is delivered (truncated) instead of failing the connection: " + why, "flate-truncated-stream-accepted", true
	}
	return why, sig, false
}
