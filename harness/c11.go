package main

// C11 - client handshake: fresh key, strict validation of the 101 response.
//
// A scripted raw server on the in-memory transport captures the request bytes and answers with any
// byte sequence in any chunking.  Observed: the request on the wire (parsed with net/http),
// NewClientFromConn's (*Conn, *http.Response, error), transport closed or not, Conn.SubProtocol(),
// the callbacks of a synchronous ReadLoop for frames glued behind the 101, elapsed time and goroutine
// count for servers that never answer / transports that stall.
// Oracle: the acceptance rule of the statement, written here independently of gws.
// Model: "C11" = client_handshake on (RequestHeader, key, parsed response); "C11req" = client_request.

import (
	"bufio"
	"bytes"
	"encoding/base64"
	"encoding/binary"
	"fmt"
	"net/http"
	"runtime"
	"sort"
	"strings"
	"time"

	"github.com/lxzan/gws"
)

func init() { runners["C11"] = runC11 }

type c11hdr struct {
	name   string
	direct bool // RequestHeader[name] = ... as spelled; otherwise Header.Set
	val    string
}

type c11opt struct {
	desc string
	hdrs []c11hdr
	pmd  bool
	rbuf int
	// when set, this very map is handed to every handshake of the option as ClientOption.RequestHeader (an application
	// that keeps one header set for all its dials, possibly shared between differently configured clients)
	shared http.Header
}

func (o *c11opt) build() (*gws.ClientOption, [][2]string) {
	var rh http.Header
	if o.hdrs != nil {
		rh = http.Header{}
		for _, h := range o.hdrs {
			if h.direct {
				rh[h.name] = []string{h.val}
			} else {
				rh.Set(h.name, h.val)
			}
		}
	}
	var cfg [][2]string
	for k, v := range rh {
		cfg = append(cfg, [2]string{k, v[0]})
	}
	sort.Slice(cfg, func(i, j int) bool { return cfg[i][0] < cfg[j][0] })
	if o.shared != nil {
		if len(o.shared) == 0 {
			for k, v := range rh {
				o.shared[k] = append([]string(nil), v...)
			}
		}
		rh = o.shared // cfg stays what the application configured
	}
	opt := &gws.ClientOption{Addr: "ws://mem.test/ws", RequestHeader: rh, ReadBufferSize: o.rbuf,
		PermessageDeflate: gws.PermessageDeflate{Enabled: o.pmd, ServerContextTakeover: true, ClientContextTakeover: true}}
	return opt, cfg
}

// one scripted response
type c11script struct {
	status  string   // status line without CRLF
	lines   []hsLine // header lines in order
	tail    []byte   // bytes glued behind the blank line (frames)
	cut     int      // >= 0: truncate the head to this many bytes and end the stream
	split   []int    // chunk boundaries (offsets into the full byte string), ascending
	noReply bool     // the server never answers
	msgs    [][]byte // payloads of the data frames in tail, in order
	ops     []int    // their opcodes
}

func (s *c11script) bytes() []byte {
	var b bytes.Buffer
	b.WriteString(s.status + "\r\n")
	for _, l := range s.lines {
		b.WriteString(l.name + ": " + l.value + "\r\n")
	}
	b.WriteString("\r\n")
	out := b.Bytes()
	if s.cut >= 0 && s.cut < len(out) {
		return out[:s.cut]
	}
	return append(out, s.tail...)
}

func (s *c11script) chunks() [][]byte {
	all := s.bytes()
	var out [][]byte
	prev := 0
	for _, at := range s.split {
		if at > prev && at < len(all) {
			out = append(out, all[prev:at])
			prev = at
		}
	}
	return append(out, all[prev:])
}

func hsSwapCase(s string) string {
	b := []byte(s)
	for i, ch := range b {
		if 'a' <= ch && ch <= 'z' {
			b[i] = ch - 32
		} else if 'A' <= ch && ch <= 'Z' {
			b[i] = ch + 32
		}
	}
	return string(b)
}

func runC11(c *Ctx) error {
	c.Sum.Rule = "scripted raw server: valid 101 responses under header-name/value case and ordering variation, extra headers, any chunking, with 0..4 frames glued behind the 101 (same chunk / next chunk / split mid-frame); every field altered or missing (status, Upgrade, Connection, Accept for another key / truncated / case-swapped, subprotocol not requested / missing / unrequested); truncated heads; servers that never answer and transports that stall the request write (HandshakeTimeout 150 ms); x client options {RequestHeader with the subprotocol key in 3 spellings, other headers, permessage-deflate on/off, read buffer sizes}; non-trivial = a request was captured; distinct by (option set, response bytes, chunking)"
	opts := []*c11opt{
		{desc: "plain"},
		{desc: "hdr+pmd", hdrs: []c11hdr{{"X-Token", false, "abc"}, {"Origin", false, "http://mem.test"}}, pmd: true},
		{desc: "proto-rfc-spelling", hdrs: []c11hdr{{"Sec-WebSocket-Protocol", true, "chat, superchat"}}},
		{desc: "proto-lower", hdrs: []c11hdr{{"sec-websocket-protocol", true, "mqtt,chat"}, {"x-lower", true, "v"}}, pmd: true, rbuf: 64},
		{desc: "proto-canonical", hdrs: []c11hdr{{"Sec-WebSocket-Protocol", false, "chat ,  superchat\t,mqtt"}, {"Cookie", false, "a=b"}}, rbuf: 512},
		{desc: "proto-upper-single", hdrs: []c11hdr{{"SEC-WEBSOCKET-PROTOCOL", true, "chat"}}},
		{desc: "proto-empty", hdrs: []c11hdr{{"Sec-WebSocket-Protocol", true, ", ,"}, {"Connection", false, "close"}, {"Sec-WebSocket-Version", false, "8"}}},
		{desc: "host", hdrs: []c11hdr{{"Host", false, "other.test"}, {"Sec-WebSocket-Key", false, "user-supplied"}, {"Upgrade", false, "h2c"}}},
		{desc: "rbuf-8192", rbuf: 8192},
		{desc: "rbuf-65536+pmd", pmd: true, rbuf: 65536},
		{desc: "rbuf-4097", rbuf: 4097},
	}
	// two differently configured clients of one application share one header set
	sharedHdr := http.Header{}
	opts = append(opts,
		&c11opt{desc: "shared-header+pmd", hdrs: []c11hdr{{"X-App", false, "one"}, {"Origin", false, "http://mem.test"}}, pmd: true, shared: sharedHdr},
		&c11opt{desc: "shared-header-nopmd", hdrs: []c11hdr{{"X-App", false, "one"}, {"Origin", false, "http://mem.test"}}, shared: sharedHdr})
	nRandom, nKeys := 1500, 2000
	if !c.quick() {
		nRandom, nKeys = 80000, 20000
	}
	keysSeen := map[string]int{}
	sigCount := map[string]int{}
	nHandshakes := 0

	// runs one handshake; returns the key the client sent
	runOne := func(o *c11opt, mk func(req *http.Request) *c11script, tag string) {
		opt, cfg := o.build()
		optCopy, _ := o.build()
		normPD, _ := gws.VerifClientPD(optCopy, "")
		extReq := ""
		if o.pmd {
			extReq = gws.VerifGenRequestHeader(normPD)
		}
		conn := newMemConn()
		h := &recHandler{}
		var script *c11script
		var wireReq *http.Request
		start := time.Now()
		cl, resp, err := clientConn(opt, h, conn, "", func(req *http.Request) []byte {
			wireReq = req
			script = mk(req)
			if script.noReply {
				return nil
			}
			conn.feed(script.chunks()...)
			if script.cut >= 0 {
				conn.setEOF()
			}
			return nil
		})
		elapsed := time.Since(start)
		closed, _ := conn.isClosed()
		nHandshakes++
		if wireReq == nil || script == nil {
			c.oracleFail("client wrote no parsable request: "+fmt.Sprintf("%q", conn.written()), "c11-request-unparsable", map[string]any{"option": o.desc})
			return
		}
		rawResp := script.bytes()
		replay := map[string]any{"option": o.desc, "request": string(conn.writeCalls()[0]), "response_chunks": hsChunkStrings(script.chunks()), "no_reply": script.noReply}
		fail := func(sig, format string, a ...any) {
			if sigCount[sig]++; sigCount[sig] > 4 {
				return // a few concrete inputs per kind of failure, so that later kinds are not crowded out
			}
			c.oracleFail(fmt.Sprintf(format, a...)+fmt.Sprintf(" | option{%s} response=%q chunks=%d", o.desc, rawResp, len(script.chunks())), sig, replay)
		}

		// ---- the request on the wire
		wh := wireReq.Header
		key := wh.Get("Sec-WebSocket-Key")
		raw16, derr := base64.StdEncoding.DecodeString(key)
		if wireReq.Method != "GET" || wh.Get("Connection") != "Upgrade" || hsLower(wh.Get("Upgrade")) != "websocket" || wh.Get("Sec-WebSocket-Version") != "13" {
			fail("c11-request-malformed", "request lacks the mandatory upgrade headers: %q", conn.writeCalls()[0])
		}
		if derr != nil || len(raw16) != 16 || len(key) != 24 {
			fail("c11-key-shape", "Sec-WebSocket-Key %q is not the base64 text of 16 bytes", key)
		}
		if len(wh.Values("Sec-WebSocket-Key")) != 1 || len(wh.Values("Sec-WebSocket-Version")) != 1 || len(wh.Values("Upgrade")) != 1 || len(wh.Values("Connection")) != 1 {
			fail("c11-request-duplicate", "a mandatory header is sent more than once: %q", conn.writeCalls()[0])
		}
		if o.pmd != strings.Contains(wh.Get("Sec-WebSocket-Extensions"), "permessage-deflate") {
			fail("c11-request-extension", "permessage-deflate enabled=%v but request offers %q", o.pmd, wh.Get("Sec-WebSocket-Extensions"))
		}
		overridden := map[string]bool{"connection": true, "upgrade": true, "sec-websocket-version": true, "sec-websocket-key": true, "sec-websocket-extensions": true}
		for _, kv := range cfg {
			lk := hsLower(kv[0])
			if lk == "host" {
				if wireReq.Host != kv[1] {
					fail("c11-request-header-lost", "configured Host %q, request has %q", kv[1], wireReq.Host)
				}
				continue
			}
			if overridden[lk] {
				continue
			}
			if wh.Get(kv[0]) != strings.Trim(kv[1], " \t") { // net/http trims the value when serialising
				fail("c11-request-header-lost", "configured RequestHeader %s: %q, on the wire %q", kv[0], kv[1], wh.Get(kv[0]))
			}
		}
		keysSeen[key]++
		if len(raw16) == 16 {
			var wire [][2]string
			for k, v := range wh {
				wire = append(wire, [2]string{k, v[0]})
			}
			sort.Slice(wire, func(i, j int) bool { return wire[i][0] < wire[j][0] })
			var cfgModel [][2]string
			for _, kv := range cfg {
				if hsLower(kv[0]) != "host" {
					cfgModel = append(cfgModel, kv)
				}
			}
			c.addCase("C11req", VL{hsPairs(cfgModel), vbool(o.pmd), VB(extReq), VN(binary.BigEndian.Uint64(raw16[:8])), VN(binary.BigEndian.Uint64(raw16[8:])), hsPairs(wire)}, "request "+tag)
		}

		// ---- verdict
		if (cl != nil) != (err == nil) {
			fail("c11-conn-err-mismatch", "returned conn=%v err=%v", cl != nil, err)
		}
		accepted := cl != nil
		// the rule, on the response as net/http parses it (independent parse of the scripted bytes)
		pr, perr := http.ReadResponse(bufio.NewReader(bytes.NewReader(rawResp)), wireReq)
		parsable := perr == nil && script.cut < 0 && !script.noReply
		var requested []string
		for _, t := range hsOracleTokens(wh.Get("Sec-WebSocket-Protocol")) {
			if t != "" {
				requested = append(requested, t)
			}
		}
		if parsable {
			ph := pr.Header
			upg, con, acc := hsFirstValue(ph, "Upgrade"), hsFirstValue(ph, "Connection"), hsFirstValue(ph, "Sec-WebSocket-Accept")
			var selected []string
			for _, t := range hsOracleTokens(hsFirstValue(ph, "Sec-WebSocket-Protocol")) {
				if t != "" {
					selected = append(selected, t)
				}
			}
			wantSub := ""
			for _, r := range requested {
				for _, s := range selected {
					if r == s && wantSub == "" {
						wantSub = r
					}
				}
			}
			hasTok := hsOracleHasToken(con, "upgrade")
			dontCare := (!hasTok && strings.Contains(hsLower(con), "upgrade")) || !hsIsASCII(upg)
			valid := pr.StatusCode == 101 && hsLower(upg) == "websocket" && hasTok && acc == hsOracleAccept(key) && (len(requested) == 0 || wantSub != "")
			if !dontCare && valid != accepted {
				fail("c11-decision", "rule says accept=%v, client accepted=%v (err=%v); key=%q requested=%q selected=%q", valid, accepted, err, key, requested, selected)
			}
			if accepted && cl.SubProtocol() != wantSub {
				fail("c11-subprotocol", "conn.SubProtocol()=%q, want %q (requested %q, selected %q)", cl.SubProtocol(), wantSub, requested, selected)
			}
			// model case: what the client itself parsed
			if resp != nil {
				var rs [][2]string
				for k, v := range resp.Header {
					if len(v) > 0 {
						rs = append(rs, [2]string{k, v[0]})
					}
				}
				sort.Slice(rs, func(i, j int) bool { return rs[i][0] < rs[j][0] })
				sub := ""
				if accepted {
					sub = cl.SubProtocol()
				}
				c.addCase("C11", VL{hsPairs(cfg), VB(key), VN(resp.StatusCode), hsPairs(rs), vbool(accepted), VB(sub)}, tag)
			}
			cls := "rejected"
			if accepted {
				cls = "accepted"
			}
			if dontCare {
				cls += "(dont-care)"
			}
			c.count(o.desc+string(rawResp)+fmt.Sprint(script.split), true, "decision="+cls, "chunks="+fmt.Sprint(hsMin(len(script.chunks()), 4)), "frames-behind-101="+fmt.Sprint(len(script.msgs)))
		} else {
			if accepted {
				fail("c11-accepted-garbage", "client returned a connection although the response is truncated / unparsable / hsAbsent")
			}
			c.count(o.desc+string(rawResp)+tag, true, "decision=rejected(no parsable response)")
		}
		if script.noReply && elapsed > time.Second {
			fail("c11-timeout-overrun", "server never answered, HandshakeTimeout=%v, NewClientFromConn returned after %v", opt.HandshakeTimeout, elapsed)
		}
		if !accepted {
			if !closed {
				fail("c11-reject-not-closed", "handshake failed (err=%v) but the transport was left open", err)
			}
			return
		}
		if closed {
			fail("c11-closed-after-accept", "connection returned but the transport is closed")
		}
		// ---- frames glued behind the 101 must be delivered
		conn.setEOF()
		if !runWithTimeout(3*time.Second, func() { cl.ReadLoop() }) {
			fail("c11-readloop-hang", "ReadLoop did not return after EOF")
			_ = conn.Close()
			return
		}
		var got [][]byte
		var gotOps []int
		for _, e := range h.events() {
			if e.Kind == "msg" || e.Kind == "ping" || e.Kind == "pong" {
				got = append(got, e.Payload)
				gotOps = append(gotOps, e.Opcode)
			}
		}
		okMsgs := len(got) == len(script.msgs)
		for i := 0; okMsgs && i < len(got); i++ {
			okMsgs = bytes.Equal(got[i], script.msgs[i]) && gotOps[i] == script.ops[i]
		}
		if !okMsgs {
			fail("c11-frames-lost", "server sent %d frame(s) directly behind the 101, the application received %d: sent=%q got=%q", len(script.msgs), len(got), script.msgs, got)
		}
		if len(script.msgs) > 0 && len(c.Sum.Samples) < 3 {
			c.sample(map[string]any{"option": o.desc, "response_chunks": hsChunkStrings(script.chunks()), "delivered": len(got), "subprotocol": cl.SubProtocol()})
		}
		_ = conn.Close()
	}

	valid := func(req *http.Request, sub string) *c11script {
		s := &c11script{status: "HTTP/1.1 101 Switching Protocols", cut: -1}
		s.lines = []hsLine{{"Upgrade", "websocket"}, {"Connection", "Upgrade"}, {"Sec-WebSocket-Accept", hsOracleAccept(req.Header.Get("Sec-WebSocket-Key"))}}
		if sub != "" {
			s.lines = append(s.lines, hsLine{"Sec-WebSocket-Protocol", sub})
		}
		return s
	}
	firstRequested := func(req *http.Request) string {
		for _, t := range hsOracleTokens(req.Header.Get("Sec-WebSocket-Protocol")) {
			if t != "" {
				return t
			}
		}
		return ""
	}
	lastRequested := func(req *http.Request) string {
		out := ""
		for _, t := range hsOracleTokens(req.Header.Get("Sec-WebSocket-Protocol")) {
			if t != "" {
				out = t
			}
		}
		return out
	}
	addFrames := func(s *c11script, n int) {
		for i := 0; i < n; i++ {
			op := []int{1, 2, 2, 9}[c.Rng.Intn(4)]
			size := []int{0, 1, 5, 125, 126, 300, 5000}[c.Rng.Intn(7)]
			if op == 9 && size > 125 {
				size = 7
			}
			p := hsRandPrintable(c, size)
			s.tail = append(s.tail, dataFrame(op, true, false, p)...)
			s.msgs = append(s.msgs, p)
			s.ops = append(s.ops, op)
		}
	}
	headLen := func(s *c11script) int { return len(s.bytes()) - len(s.tail) }

	type mutation struct {
		name string
		f    func(s *c11script, req *http.Request)
	}
	setLine := func(s *c11script, name, v string) {
		for i := range s.lines {
			if hsLower(s.lines[i].name) == hsLower(name) {
				s.lines[i].value = v
				return
			}
		}
		s.lines = append(s.lines, hsLine{name, v})
	}
	dropLine := func(s *c11script, name string) {
		var out []hsLine
		for _, l := range s.lines {
			if hsLower(l.name) != hsLower(name) {
				out = append(out, l)
			}
		}
		s.lines = out
	}
	muts := []mutation{
		{"status-200", func(s *c11script, r *http.Request) { s.status = "HTTP/1.1 200 OK" }},
		{"status-400", func(s *c11script, r *http.Request) {
			s.status = "HTTP/1.1 400 Bad Request"
			setLine(s, "Content-Length", "0")
		}},
		{"status-404", func(s *c11script, r *http.Request) {
			s.status = "HTTP/1.1 404 Not Found"
			setLine(s, "Content-Length", "0")
		}},
		{"status-301", func(s *c11script, r *http.Request) {
			s.status = "HTTP/1.1 301 Moved"
			setLine(s, "Location", "ws://x/")
			setLine(s, "Content-Length", "0")
		}},
		{"status-100", func(s *c11script, r *http.Request) { s.status = "HTTP/1.1 100 Continue" }},
		{"status-102", func(s *c11script, r *http.Request) { s.status = "HTTP/1.1 102 Processing" }},
		{"status-1010", func(s *c11script, r *http.Request) { s.status = "HTTP/1.1 201 Created" }},
		{"no-upgrade", func(s *c11script, r *http.Request) { dropLine(s, "Upgrade") }},
		{"upgrade-h2c", func(s *c11script, r *http.Request) { setLine(s, "Upgrade", "h2c") }},
		{"upgrade-empty", func(s *c11script, r *http.Request) { setLine(s, "Upgrade", "") }},
		{"upgrade-websockets", func(s *c11script, r *http.Request) { setLine(s, "Upgrade", "websockets") }},
		{"no-connection", func(s *c11script, r *http.Request) { dropLine(s, "Connection") }},
		{"connection-close", func(s *c11script, r *http.Request) { setLine(s, "Connection", "close") }},
		{"connection-keepalive", func(s *c11script, r *http.Request) { setLine(s, "Connection", "keep-alive") }},
		{"connection-upgrad", func(s *c11script, r *http.Request) { setLine(s, "Connection", "upgrad") }},
		{"no-accept", func(s *c11script, r *http.Request) { dropLine(s, "Sec-WebSocket-Accept") }},
		{"accept-other-key", func(s *c11script, r *http.Request) { setLine(s, "Sec-WebSocket-Accept", hsOracleAccept(testKey)) }},
		{"accept-truncated", func(s *c11script, r *http.Request) {
			a := hsOracleAccept(r.Header.Get("Sec-WebSocket-Key"))
			setLine(s, "Sec-WebSocket-Accept", a[:len(a)-1-c.Rng.Intn(3)])
		}},
		{"accept-extended", func(s *c11script, r *http.Request) {
			setLine(s, "Sec-WebSocket-Accept", hsOracleAccept(r.Header.Get("Sec-WebSocket-Key"))+"=")
		}},
		{"accept-case-swapped", func(s *c11script, r *http.Request) {
			setLine(s, "Sec-WebSocket-Accept", hsSwapCase(hsOracleAccept(r.Header.Get("Sec-WebSocket-Key"))))
		}},
		{"accept-one-char-case", func(s *c11script, r *http.Request) {
			a := []byte(hsOracleAccept(r.Header.Get("Sec-WebSocket-Key")))
			for k := 0; k < 50; k++ {
				i := c.Rng.Intn(len(a))
				if ('a' <= a[i] && a[i] <= 'z') || ('A' <= a[i] && a[i] <= 'Z') {
					a[i] ^= 0x20
					break
				}
			}
			setLine(s, "Sec-WebSocket-Accept", string(a))
		}},
		{"accept-padding-bits", func(s *c11script, r *http.Request) {
			// the 27th character of the value carries four digest bits and two padding bits (zero): the same digest bits with
			// other padding bits is a DIFFERENT header value that a lenient base64 decoder maps to the same 20 bytes
			const alpha = "ABCDEFGHIJKLMNOPQRSTUVWXYZabcdefghijklmnopqrstuvwxyz0123456789+/"
			a := []byte(hsOracleAccept(r.Header.Get("Sec-WebSocket-Key")))
			if len(a) == 28 && a[27] == '=' {
				if i := strings.IndexByte(alpha, a[26]); i >= 0 && i%4 == 0 {
					a[26] = alpha[i+1+c.Rng.Intn(3)]
				}
			}
			setLine(s, "Sec-WebSocket-Accept", string(a))
		}},
		{"accept-of-key-without-guid", func(s *c11script, r *http.Request) {
			setLine(s, "Sec-WebSocket-Accept", r.Header.Get("Sec-WebSocket-Key"))
		}},
		{"accept-empty", func(s *c11script, r *http.Request) { setLine(s, "Sec-WebSocket-Accept", "") }},
		{"sub-not-requested", func(s *c11script, r *http.Request) { setLine(s, "Sec-WebSocket-Protocol", "not-requested") }},
		{"sub-none", func(s *c11script, r *http.Request) { dropLine(s, "Sec-WebSocket-Protocol") }},
		{"sub-empty", func(s *c11script, r *http.Request) { setLine(s, "Sec-WebSocket-Protocol", "") }},
		{"sub-case-changed", func(s *c11script, r *http.Request) {
			if f := firstRequested(r); f != "" {
				setLine(s, "Sec-WebSocket-Protocol", hsSwapCase(f))
			}
		}},
		{"sub-prefix", func(s *c11script, r *http.Request) {
			if f := firstRequested(r); len(f) > 1 {
				setLine(s, "Sec-WebSocket-Protocol", f[:len(f)-1])
			}
		}},
		{"sub-last-requested", func(s *c11script, r *http.Request) {
			if f := lastRequested(r); f != "" {
				setLine(s, "Sec-WebSocket-Protocol", f)
			}
		}},
	}
	benign := []mutation{
		{"name-lower", func(s *c11script, r *http.Request) {
			for i := range s.lines {
				s.lines[i].name = strings.ToLower(s.lines[i].name)
			}
		}},
		{"name-upper", func(s *c11script, r *http.Request) {
			for i := range s.lines {
				s.lines[i].name = strings.ToUpper(s.lines[i].name)
			}
		}},
		{"name-random-case", func(s *c11script, r *http.Request) {
			for i := range s.lines {
				s.lines[i].name = hsRandCase(c, s.lines[i].name)
			}
		}},
		{"value-case", func(s *c11script, r *http.Request) {
			setLine(s, "Upgrade", hsPick(c, c10UpgValid))
			setLine(s, "Connection", hsPick(c, c10ConnValid))
		}},
		{"shuffle", func(s *c11script, r *http.Request) {
			c.Rng.Shuffle(len(s.lines), func(i, j int) { s.lines[i], s.lines[j] = s.lines[j], s.lines[i] })
		}},
		{"extra-headers", func(s *c11script, r *http.Request) {
			s.lines = append([]hsLine{{"Server", "verif"}, {"Date", "Thu, 01 Jan 2026 00:00:00 GMT"}}, s.lines...)
			s.lines = append(s.lines, hsLine{"X-Trailing", "1"})
		}},
		{"status-text", func(s *c11script, r *http.Request) { s.status = "HTTP/1.1 101 Whatever" }},
		{"dont-care-connection", func(s *c11script, r *http.Request) { setLine(s, "Connection", hsPick(c, c10ConnDontCare)) }},
		{"dont-care-upgrade", func(s *c11script, r *http.Request) { setLine(s, "Upgrade", hsPick(c, c10UpgDontCare)) }},
	}
	chunkings := func(s *c11script, mode int) {
		hl := headLen(s)
		all := len(s.bytes())
		switch mode {
		case 0: // everything in one chunk: frames in the SAME segment as the 101
		case 1: // frames in a following chunk
			s.split = []int{hl}
		case 2: // head split, frames glued to its second half
			s.split = []int{1 + c.Rng.Intn(hl-1)}
		case 3: // first frame cut in the middle
			if all > hl+1 {
				s.split = []int{hl + 1 + c.Rng.Intn(all-hl-1)}
			}
		case 4: // byte-sized head pieces then the rest
			s.split = []int{1, 2, 9, 15, hl - 2, hl - 1}
		case 5: // random cuts
			for k := 0; k < 1+c.Rng.Intn(5); k++ {
				s.split = append(s.split, 1+c.Rng.Intn(all))
			}
			sort.Ints(s.split)
		}
	}

	// 1. valid responses x options x chunkings x frames behind the 101
	for _, o := range opts {
		for mode := 0; mode <= 5; mode++ {
			for nf := 0; nf <= 4; nf++ {
				if nf > 1 && mode > 3 {
					continue
				}
				mode, nf := mode, nf
				runOne(o, func(req *http.Request) *c11script {
					s := valid(req, firstRequested(req))
					benign[(mode+nf)%7].f(s, req)
					addFrames(s, nf)
					chunkings(s, mode)
					return s
				}, fmt.Sprintf("valid chunking=%d frames=%d", mode, nf))
			}
		}
		for _, b := range benign {
			b := b
			runOne(o, func(req *http.Request) *c11script {
				s := valid(req, lastRequested(req))
				b.f(s, req)
				addFrames(s, 1)
				return s
			}, "valid "+b.name)
		}
	}
	// 2. each field altered / missing, one at a time, every option set
	for _, o := range opts {
		for _, m := range muts {
			m := m
			runOne(o, func(req *http.Request) *c11script {
				s := valid(req, firstRequested(req))
				m.f(s, req)
				return s
			}, "altered "+m.name)
		}
		// truncated heads
		for k := 0; k < 6; k++ {
			runOne(o, func(req *http.Request) *c11script {
				s := valid(req, firstRequested(req))
				s.cut = c.Rng.Intn(headLen(s) - 1)
				if k == 0 {
					s.cut = headLen(s) - 2 // only the final CRLF missing
				}
				if k == 1 {
					s.cut = 0
				}
				return s
			}, "truncated")
		}
	}
	// 3. random: benign variations, 0..2 alterations, frames, chunking
	for n := 0; n < nRandom; n++ {
		o := opts[c.Rng.Intn(len(opts))]
		runOne(o, func(req *http.Request) *c11script {
			sub := firstRequested(req)
			if c.Rng.Intn(2) == 0 {
				sub = lastRequested(req)
			}
			s := valid(req, sub)
			for k := c.Rng.Intn(3); k > 0; k-- {
				benign[c.Rng.Intn(len(benign))].f(s, req)
			}
			switch c.Rng.Intn(5) {
			case 0, 1:
				muts[c.Rng.Intn(len(muts))].f(s, req)
			case 2:
				muts[c.Rng.Intn(len(muts))].f(s, req)
				muts[c.Rng.Intn(len(muts))].f(s, req)
			}
			if c.Rng.Intn(4) == 0 {
				benign[c.Rng.Intn(5)].f(s, req)
			}
			addFrames(s, c.Rng.Intn(4))
			chunkings(s, c.Rng.Intn(6))
			return s
		}, "random")
	}
	// 4. the server never answers: error within the timeout, transport closed, no goroutine left
	base := hsSettleGoroutines(0)
	for i, o := range opts {
		opt, _ := o.build()
		opt.HandshakeTimeout = 150 * time.Millisecond
		conn := newMemConn()
		start := time.Now()
		var cl *gws.Conn
		var err error
		returned := runWithTimeout(3*time.Second, func() {
			cl, _, err = clientConn(opt, &recHandler{}, conn, "", func(req *http.Request) []byte { return nil })
		})
		el := time.Since(start)
		closed, _ := conn.isClosed()
		rp := map[string]any{"option": o.desc, "scenario": "server reads the request and never answers", "handshake_timeout_ms": 150}
		if !returned || el > time.Second || cl != nil || err == nil {
			c.oracleFail(fmt.Sprintf("server never answers, HandshakeTimeout=150ms: returned=%v after %v conn=%v err=%v | option{%s}", returned, el, cl != nil, err, o.desc), "c11-timeout-overrun", rp)
		}
		if !closed {
			c.oracleFail(fmt.Sprintf("server never answers: handshake failed (err=%v) but the transport was left open | option{%s}", err, o.desc), "c11-reject-not-closed", rp)
		}
		c.count(fmt.Sprintf("noreply-%d", i), true, "decision=rejected(server silent)")
		nHandshakes++
	}
	// 5. the transport stalls the request write past the timeout, then fails it when closed
	nStall := 6
	for i := 0; i < nStall; i++ {
		o := opts[i%len(opts)]
		opt, _ := o.build()
		opt.HandshakeTimeout = 150 * time.Millisecond
		conn := newMemConn()
		conn.gate = make(chan struct{})
		start := time.Now()
		var cl *gws.Conn
		var err error
		returned := runWithTimeout(3*time.Second, func() { cl, _, err = gws.NewClientFromConn(&recHandler{}, opt, conn) })
		el := time.Since(start)
		closed, _ := conn.isClosed()
		close(conn.gate) // the stalled Write now returns
		rp := map[string]any{"option": o.desc, "scenario": "transport Write blocks past HandshakeTimeout and returns once the handshake has failed", "handshake_timeout_ms": 150}
		if !returned || el > time.Second || cl != nil || err == nil {
			c.oracleFail(fmt.Sprintf("request write stalled, HandshakeTimeout=150ms: returned=%v after %v conn=%v err=%v | option{%s}", returned, el, cl != nil, err, o.desc), "c11-timeout-overrun", rp)
		}
		if returned && !closed {
			c.oracleFail(fmt.Sprintf("request write stalled: handshake failed (err=%v) but the transport was left open | option{%s}", err, o.desc), "c11-reject-not-closed", rp)
		}
		c.count(fmt.Sprintf("stall-%d", i), true, "decision=rejected(write stalled)")
		nHandshakes++
	}
	if after := hsSettleGoroutines(base); after > base {
		c.oracleFail(fmt.Sprintf("%d goroutine(s) left behind after %d timed-out handshakes (server silent x%d, request write stalled past HandshakeTimeout=150ms x%d): %d before, %d after settling 2 s",
			after-base, len(opts)+nStall, len(opts), nStall, base, after), "c11-goroutine-leak",
			map[string]any{"scenario": "NewClientFromConn with HandshakeTimeout=150ms on a transport whose Write blocks until the handshake has failed", "before": base, "after": after})
	}
	// 6. key freshness: pairwise distinct keys over many handshakes
	for n := 0; n < nKeys; n++ {
		conn := newMemConn()
		opt := &gws.ClientOption{Addr: "ws://mem.test/ws"}
		var key string
		cl, _, err := clientConn(opt, &recHandler{}, conn, "", func(req *http.Request) []byte {
			key = req.Header.Get("Sec-WebSocket-Key")
			return defaultResponse(req, "", "")
		})
		if err != nil || cl == nil {
			c.oracleFail(fmt.Sprintf("plain valid handshake failed: %v", err), "c11-decision", map[string]any{"n": n})
			break
		}
		keysSeen[key]++
		nHandshakes++
		_ = conn.Close()
	}
	for k, n := range keysSeen {
		if n > 1 {
			c.oracleFail(fmt.Sprintf("Sec-WebSocket-Key %q used by %d of %d handshakes", k, n, nHandshakes), "c11-key-reuse", map[string]any{"key": k, "times": n})
			break
		}
	}
	c.Sum.Distribution["handshakes-with-distinct-keys"] = len(keysSeen)
	c.Sum.Notes = append(c.Sum.Notes, fmt.Sprintf("%d handshakes, %d distinct keys", nHandshakes-len(opts)-nStall, len(keysSeen)))
	return nil
}

func hsChunkStrings(cs [][]byte) []string {
	var out []string
	for _, ch := range cs {
		out = append(out, string(ch))
	}
	return out
}

func hsMin(a, b int) int {
	if a < b {
		return a
	}
	return b
}

// hsSettleGoroutines waits (up to 2 s) for the goroutine count to drop to target; returns the last count
func hsSettleGoroutines(target int) int {
	n := runtime.NumGoroutine()
	for i := 0; i < 200 && (target == 0 && i < 20 || n > target); i++ {
		time.Sleep(10 * time.Millisecond)
		runtime.GC()
		n = runtime.NumGoroutine()
	}
	return n
}
