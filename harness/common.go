package main

import (
	"crypto/sha256"
	"encoding/hex"
	"encoding/json"
	"fmt"
	"math/rand"
	"os"
	"path/filepath"
	"runtime"
	"strconv"
	"strings"
	"sync"
	"sync/atomic"
	"time"
)

// Ctx carries everything one harness run needs; every random choice derives from Seed.
type Ctx struct {
	Prop         string
	Tier         string
	Seed         int64
	Out          string
	Rng          *rand.Rand
	Sum          *Summary
	lines        strings.Builder // cases for the extracted runner
	nlines       int
	tags         []string
	kernel       []kcase // small cases re-evaluated inside the Coq kernel
	kbytes       int
	failMu       sync.Mutex
	hangs        int
	lastProgress int64 // unix nanoseconds of the last finished case
	lastTag      atomic.Value
}

// V is a case value rendered both in the line format of the extracted runner and as a Gallina literal.
type V interface {
	line(b *strings.Builder)
	coq(b *strings.Builder)
	size() int
}

type VN uint64
type VZ int64
type VB []byte
type VL []V

func (v VN) line(b *strings.Builder) { fmt.Fprintf(b, "n%d", uint64(v)) }
func (v VN) coq(b *strings.Builder)  { fmt.Fprintf(b, "VN %d", uint64(v)) }
func (v VN) size() int               { return 1 }
func (v VZ) line(b *strings.Builder) { fmt.Fprintf(b, "z%d", int64(v)) }
func (v VZ) coq(b *strings.Builder)  { fmt.Fprintf(b, "VZ (%d)", int64(v)) }
func (v VZ) size() int               { return 1 }
func (v VB) line(b *strings.Builder) { b.WriteString("x"); b.WriteString(hex.EncodeToString(v)) }
func (v VB) coq(b *strings.Builder)  { fmt.Fprintf(b, "VH \"%s\"", hex.EncodeToString(v)) }
func (v VB) size() int               { return len(v) }
func (v VL) line(b *strings.Builder) {
	b.WriteString("(")
	for _, x := range v {
		b.WriteString(" ")
		x.line(b)
	}
	b.WriteString(" )")
}
func (v VL) coq(b *strings.Builder) {
	b.WriteString("VL [")
	for i, x := range v {
		if i > 0 {
			b.WriteString("; ")
		}
		x.coq(b)
	}
	b.WriteString("]")
}
func (v VL) size() int {
	n := 1
	for _, x := range v {
		n += x.size()
	}
	return n
}

func vbool(b bool) VN {
	if b {
		return 1
	}
	return 0
}

type kcase struct {
	check string
	v     V
	line  int
}

// Summary is what the harness reports to vcheck (evidence + oracle verdicts).
type Summary struct {
	Property      string         `json:"property"`
	Evaluations   int            `json:"evaluations"`
	Distinct      int            `json:"distinct_nontrivial"`
	Rule          string         `json:"rule"`
	Samples       []any          `json:"samples"`
	Distribution  map[string]int `json:"distribution"`
	Cases         int            `json:"cases"`
	KernelCases   int            `json:"kernel_cases"`
	KernelLines   []int          `json:"kernel_lines"`
	Tags          []string       `json:"tags"`
	OracleFails   []OracleFail   `json:"oracle_failures"` // property's own oracle evaluated on the implementation
	Notes         []string       `json:"notes,omitempty"`
	seen          map[string]bool
	nontrivialKey map[string]bool
}

// OracleFail is a concrete input on which the implementation violates the property statement.
type OracleFail struct {
	What   string `json:"what"`
	Replay any    `json:"replay"`
	Sig    string `json:"signature"` // stable signature matched against known_findings.txt
}

// lockedSource makes the run's single PRNG usable from the transport's goroutines as well
type lockedSource struct {
	mu  sync.Mutex
	src rand.Source64
}

func (l *lockedSource) Int63() int64   { l.mu.Lock(); defer l.mu.Unlock(); return l.src.Int63() }
func (l *lockedSource) Uint64() uint64 { l.mu.Lock(); defer l.mu.Unlock(); return l.src.Uint64() }
func (l *lockedSource) Seed(s int64)   { l.mu.Lock(); defer l.mu.Unlock(); l.src.Seed(s) }

func newCtx(prop, tier string, seed int64, out string) *Ctx {
	c := &Ctx{Prop: prop, Tier: tier, Seed: seed, Out: out, Rng: rand.New(&lockedSource{src: rand.NewSource(seed).(rand.Source64)}),
		Sum: &Summary{Property: prop, Distribution: map[string]int{}, seen: map[string]bool{}, nontrivialKey: map[string]bool{}}}
	atomic.StoreInt64(&c.lastProgress, time.Now().UnixNano())
	go c.watchdog()
	return c
}

// watchdog: a scenario that never returns (a deadlock inside the library, a callback that never comes where the scenario
// has no time-out of its own) would otherwise hold the whole check until the caller's time-out and report nothing.  After
// 300 s without a finished case the run ends with what it has plus the stacks of the goroutines inside gws.
func (c *Ctx) watchdog() {
	for {
		time.Sleep(2 * time.Second)
		idle := time.Since(time.Unix(0, atomic.LoadInt64(&c.lastProgress)))
		limit := 300 * time.Second
		if v, err := strconv.Atoi(os.Getenv("VERIF_STALL_SECONDS")); err == nil && v > 0 {
			limit = time.Duration(v) * time.Second
		}
		if idle < limit {
			continue
		}
		buf := make([]byte, 1<<20)
		buf = buf[:runtime.Stack(buf, true)]
		var keep []string
		for _, g := range strings.Split(string(buf), "\n\n") {
			if strings.Contains(g, "lxzan/gws") || strings.Contains(g, "main.run") {
				keep = append(keep, g)
			}
		}
		stacks := strings.Join(keep, "\n\n")
		if len(stacks) > 12000 {
			stacks = stacks[:12000]
		}
		last, _ := c.lastTag.Load().(string)
		c.failMu.Lock()
		c.Sum.OracleFails = append(c.Sum.OracleFails, OracleFail{
			What:   fmt.Sprintf("the run made no progress for %d s; last finished case: %q (the stacks of the goroutines inside gws are in the replay)", int(idle.Seconds()), last),
			Sig:    "no-progress-hang",
			Replay: map[string]any{"last_finished_case": last, "stacks": stacks}})
		c.Sum.Notes = append(c.Sum.Notes, "run ended by the harness watchdog")
		err := c.flush()
		c.failMu.Unlock()
		if err != nil {
			fmt.Fprintln(os.Stderr, "harness error:", err)
			os.Exit(3)
		}
		os.Exit(0)
	}
}

func (c *Ctx) quick() bool { return c.Tier != "thorough" }

// count records one evaluated case; key identifies it for distinctness; nontrivial by the caller's rule.
func (c *Ctx) count(key string, nontrivial bool, dist ...string) {
	atomic.StoreInt64(&c.lastProgress, time.Now().UnixNano())
	c.lastTag.Store(key)
	c.Sum.Evaluations++
	h := sha256.Sum256([]byte(key))
	k := string(h[:12])
	if nontrivial && !c.Sum.seen[k] {
		c.Sum.seen[k] = true
		c.Sum.Distinct++
	}
	for _, d := range dist {
		c.Sum.Distribution[d]++
	}
}

func (c *Ctx) sample(v any) {
	if len(c.Sum.Samples) < 6 {
		c.Sum.Samples = append(c.Sum.Samples, v)
	}
}

func (c *Ctx) oracleFail(what, sig string, replay any) {
	c.failMu.Lock()
	defer c.failMu.Unlock()
	if len(c.Sum.OracleFails) < 50 {
		c.Sum.OracleFails = append(c.Sum.OracleFails, OracleFail{What: what, Replay: replay, Sig: sig})
	}
	// every hang costs a watchdog period: after three of them the run ends with what it has (the failing inputs are
	// reported; a run that only times out would report nothing)
	if strings.HasSuffix(sig, "-hang") || strings.HasSuffix(sig, "-timeout") {
		c.hangs++
		if c.hangs >= 3 {
			c.Sum.Notes = append(c.Sum.Notes, "run ended early after three hangs")
			if err := c.flush(); err != nil {
				fmt.Fprintln(os.Stderr, "harness error:", err)
				os.Exit(3)
			}
			os.Exit(0)
		}
	}
}

// addCase records one case for check `check` (a name known to extract/dispatch.ml and Corr/Kernel.v).
// Small cases are additionally evaluated in the kernel, up to a byte budget.
func (c *Ctx) addCase(check string, v V, tag string) {
	c.lines.WriteString(check)
	c.lines.WriteString(" ")
	v.line(&c.lines)
	c.lines.WriteString("\n")
	c.nlines++
	c.tags = append(c.tags, tag)
	budget, maxCases := 12000, 400
	if sz := v.size(); sz <= 600 && c.kbytes+sz <= budget && len(c.kernel) < maxCases && (c.nlines%3 == 1 || c.nlines < 40) {
		c.kernel = append(c.kernel, kcase{check, v, c.nlines})
		c.kbytes += sz
	}
}

func (c *Ctx) flush() error {
	if err := os.WriteFile(filepath.Join(c.Out, "cases.txt"), []byte(c.lines.String()), 0o644); err != nil {
		return err
	}
	var b strings.Builder
	for i, k := range c.kernel {
		fmt.Fprintf(&b, " (%s, ", qstr(k.check))
		k.v.coq(&b)
		b.WriteString(")")
		if i != len(c.kernel)-1 {
			b.WriteString(";")
		}
		b.WriteString("\n")
		c.Sum.KernelLines = append(c.Sum.KernelLines, k.line)
	}
	if err := os.WriteFile(filepath.Join(c.Out, "kernel_cases.body"), []byte(b.String()), 0o644); err != nil {
		return err
	}
	c.Sum.Cases = c.nlines
	c.Sum.KernelCases = len(c.kernel)
	c.Sum.Tags = c.tags
	js, err := json.MarshalIndent(c.Sum, "", " ")
	if err != nil {
		return err
	}
	return os.WriteFile(filepath.Join(c.Out, "summary.json"), js, 0o644)
}

// Gallina literal helpers
func qhex(b []byte) string { return `"` + hex.EncodeToString(b) + `"` }

func qstr(s string) string { return `"` + strings.ReplaceAll(s, `"`, `""`) + `"` }

func nlit(n int) string { return fmt.Sprintf("%d%%N", n) }

func zlit(n int64) string { return fmt.Sprintf("(%d)%%Z", n) }

func blit(b bool) string {
	if b {
		return "true"
	}
	return "false"
}

func randBytes(r *rand.Rand, n int) []byte {
	b := make([]byte, n)
	r.Read(b)
	return b
}
