package main

import (
	"fmt"
	"runtime"
	"strings"
	"sync"
	"sync/atomic"
	"time"

	"github.com/lxzan/gws"
)

func init() { runners["C15"] = runC15 }

// c15Sys is one real connection whose async queue is driven with harness-controlled tasks.
// Log entries: start of task i = 2i, end of task i = 2i+1.
type c15Sys struct {
	conn    *gws.Conn
	mu      sync.Mutex
	log     []int
	sig     chan struct{}
	running int32
	overlap []string
	release []chan struct{}
}

var c15SysCount int

// every other system is a connection configured for parallel message handling: that setting is about the READ side, the
// asynchronous queue of the connection is the same single worker
func c15NewSys() (*c15Sys, error) {
	c15SysCount++
	opt := &gws.ClientOption{}
	if c15SysCount%2 == 0 {
		opt = &gws.ClientOption{ParallelEnabled: true, ParallelGolimit: 4}
	}
	conn, _, err := clientConn(opt, &recHandler{}, newMemConn(), "", nil)
	if err != nil {
		return nil, err
	}
	return &c15Sys{conn: conn, sig: make(chan struct{}, 1)}, nil
}

func (s *c15Sys) add(e int) {
	s.mu.Lock()
	s.log = append(s.log, e)
	s.mu.Unlock()
	select {
	case s.sig <- struct{}{}:
	default:
	}
}

func (s *c15Sys) snapshot() []int {
	s.mu.Lock()
	defer s.mu.Unlock()
	return append([]int(nil), s.log...)
}

// enter/leave bracket a task body; a second task entering while one is inside is an overlap,
// detected without any timing assumption (a blocked task stays inside until released).
func (s *c15Sys) enter(i int) {
	if n := atomic.AddInt32(&s.running, 1); n != 1 {
		s.mu.Lock()
		s.overlap = append(s.overlap, fmt.Sprintf("task %d started while %d other task(s) were running", i, n-1))
		s.mu.Unlock()
	}
	s.add(2 * i)
}

func (s *c15Sys) leave(i int) {
	s.add(2*i + 1)
	atomic.AddInt32(&s.running, -1)
}

// submit pushes blocking task i (ids = submission order) through Conn.Async.
func (s *c15Sys) submit(i int) {
	ch := make(chan struct{})
	s.release = append(s.release, ch)
	s.conn.Async(func() {
		s.enter(i)
		<-ch
		s.leave(i)
	})
}

// waitLen waits until the log has at least n entries.
func (s *c15Sys) waitLen(n int, d time.Duration) bool {
	deadline := time.NewTimer(d)
	defer deadline.Stop()
	for {
		s.mu.Lock()
		l := len(s.log)
		s.mu.Unlock()
		if l >= n {
			return true
		}
		select {
		case <-s.sig:
		case <-deadline.C:
			s.mu.Lock()
			l = len(s.log)
			s.mu.Unlock()
			return l >= n
		}
	}
}

func (s *c15Sys) overlaps() []string {
	s.mu.Lock()
	defer s.mu.Unlock()
	return append([]string(nil), s.overlap...)
}

// releaseAll unblocks every task (clean-up after a failure, so no goroutine stays parked)
func (s *c15Sys) releaseAll() {
	for _, ch := range s.release {
		select {
		case <-ch:
		default:
			close(ch)
		}
	}
}

// the property's own oracle: a plain FIFO single-server queue
type c15Oracle struct {
	queue   []int
	running int // -1: idle
	log     []int
	nsub    int
}

func (o *c15Oracle) submit() int {
	i := o.nsub
	o.nsub++
	if o.running < 0 {
		o.running = i
		o.log = append(o.log, 2*i)
	} else {
		o.queue = append(o.queue, i)
	}
	return i
}

func (o *c15Oracle) complete() int {
	t := o.running
	o.log = append(o.log, 2*t+1)
	if len(o.queue) > 0 {
		o.running = o.queue[0]
		o.queue = o.queue[1:]
		o.log = append(o.log, 2*o.running)
	} else {
		o.running = -1
	}
	return t
}

func c15LogStr(l []int) string {
	s := ""
	for i, e := range l {
		if i > 0 {
			s += " "
		}
		if e%2 == 0 {
			s += fmt.Sprintf("s%d", e/2)
		} else {
			s += fmt.Sprintf("e%d", e/2)
		}
	}
	return s
}

func c15EvStr(evs []int) string {
	b := make([]byte, len(evs))
	for i, e := range evs {
		b[i] = "SC"[e]
	}
	return string(b)
}

func eqInts(a, b []int) bool {
	if len(a) != len(b) {
		return false
	}
	for i := range a {
		if a[i] != b[i] {
			return false
		}
	}
	return true
}

func vns(l []int) VL {
	v := VL{}
	for _, x := range l {
		v = append(v, VN(x))
	}
	return v
}

const c15Timeout = 3 * time.Second

// c15RunSeq drives one event sequence (0 = submit, 1 = complete the running task) on a fresh connection,
// compares the observed log with the oracle after every event, then drains.  Returns false on a violation.
func c15RunSeq(c *Ctx, evs []int, kind string, emit bool) bool {
	s, err := c15NewSys()
	if err != nil {
		c.oracleFail("cannot build a connection: "+err.Error(), "c15-setup", nil)
		return false
	}
	defer s.releaseAll()
	o := &c15Oracle{running: -1}
	full := append([]int(nil), evs...)
	var lens []int
	fail := func(step int, what, sig string) bool {
		obs := s.snapshot()
		c.oracleFail(fmt.Sprintf("%s: events %s (S=submit, C=complete the running task), at event %d: observed log [%s], a FIFO single server gives [%s]",
			what, c15EvStr(full), step, c15LogStr(obs), c15LogStr(o.log)), sig,
			map[string]any{"events": c15EvStr(full), "failing_event_index": step, "observed_log": c15LogStr(obs), "expected_log": c15LogStr(o.log)})
		return false
	}
	check := func(step int) bool {
		// let goroutines spawned by the event (a worker that should not exist, too) run before looking
		runtime.Gosched()
		runtime.Gosched()
		if !s.waitLen(len(o.log), c15Timeout) {
			obs := s.snapshot()
			if len(obs) < len(o.log) && o.log[len(obs)]%2 == 0 {
				return fail(step, fmt.Sprintf("stranded task: task %d is submitted, no task is running, and it does not start", o.log[len(obs)]/2), "queue-stranded-task")
			}
			return fail(step, "the released task did not finish", "queue-task-not-finished")
		}
		obs := s.snapshot()
		if ov := s.overlaps(); len(ov) > 0 {
			return fail(step, "two tasks at a time: "+ov[0], "queue-overlap")
		}
		if !eqInts(obs, o.log) {
			if len(obs) > len(o.log) {
				return fail(step, "a task started that should not have (already run, or another one still running)", "queue-extra-start")
			}
			return fail(step, "tasks do not start in submission order", "queue-not-fifo")
		}
		return true
	}
	step := 0
	do := func(e int) bool {
		if e == 0 {
			s.submit(o.submit())
		} else {
			t := o.complete()
			close(s.release[t])
		}
		ok := check(step)
		lens = append(lens, len(o.log))
		step++
		return ok
	}
	for _, e := range evs {
		if !do(e) {
			return false
		}
	}
	// drain: complete everything that is left, one by one
	for o.running >= 0 {
		full = append(full, 1)
		if !do(1) {
			return false
		}
	}
	// settle: nothing may start or run again once everything has run
	for i := 0; i < 3; i++ {
		runtime.Gosched()
	}
	time.Sleep(200 * time.Microsecond)
	if obs := s.snapshot(); !eqInts(obs, o.log) || len(s.overlaps()) > 0 {
		return fail(step, "after everything completed the log changed again (a task ran twice)", "queue-ran-twice")
	}
	if emit {
		c.addCase("C15", VL{VZ(1), vns(full), vns(o.log), vns(lens)}, kind+" "+c15EvStr(full))
	}
	maxq := 0
	{
		q, run := 0, false
		for _, e := range full {
			if e == 0 {
				if run {
					q++
				} else {
					run = true
				}
			} else if q > 0 {
				q--
			} else {
				run = false
			}
			if q > maxq {
				maxq = q
			}
		}
	}
	c.count(kind+c15EvStr(full), o.nsub >= 2, "kind="+kind, fmt.Sprintf("maxqueue=%s", bucket(maxq)), fmt.Sprintf("tasks=%s", bucket(o.nsub)))
	if kind == "enum" && c15EvStr(evs) == "SSSCSCC" {
		c.sample(map[string]any{"events": c15EvStr(full), "log": c15LogStr(o.log)})
	}
	return true
}

func bucket(n int) string {
	switch {
	case n <= 3:
		return fmt.Sprint(n)
	case n <= 7:
		return "4-7"
	case n <= 31:
		return "8-31"
	default:
		return ">=32"
	}
}

// c15Concurrent: g submitter goroutines push n non-blocking tasks each, concurrently with the worker
// draining the queue; then everything must have run exactly once, never two at a time, each
// goroutine's tasks in its own order.  reuse != nil runs the round on an existing connection.
func c15Concurrent(c *Ctx, s *c15Sys, g, n int, kind string, emit bool) bool {
	base := len(s.snapshot())
	total := g * n
	var wg sync.WaitGroup
	yields := make([][]int, g)
	for a := 0; a < g; a++ {
		yields[a] = make([]int, n)
		for k := range yields[a] {
			yields[a][k] = c.Rng.Intn(4)
		}
	}
	spin := c.Rng.Intn(3)
	start := make(chan struct{})
	for a := 0; a < g; a++ {
		wg.Add(1)
		go func(a int) {
			defer wg.Done()
			<-start
			for k := 0; k < n; k++ {
				id := a*n + k
				s.conn.Async(func() {
					s.enter(id)
					for y := 0; y < spin; y++ {
						runtime.Gosched()
					}
					s.leave(id)
				})
				for y := 0; y < yields[a][k]; y++ {
					runtime.Gosched()
				}
			}
		}(a)
	}
	close(start)
	wg.Wait()
	replay := func(obs []int) map[string]any {
		return map[string]any{"submitters": g, "tasks_each": n, "observed_log": c15LogStr(obs), "note": "task id = submitter*tasks_each + k"}
	}
	if !s.waitLen(base+2*total, c15Timeout) {
		obs := s.snapshot()[base:]
		c.oracleFail(fmt.Sprintf("stranded task: %d submitters x %d tasks all submitted, the queue went quiet after %d of %d start/end events: [%s]",
			g, n, len(obs), 2*total, c15LogStr(obs)), "queue-stranded-task", replay(obs))
		return false
	}
	for i := 0; i < 2; i++ {
		runtime.Gosched()
	}
	obs := s.snapshot()[base:]
	if ov := s.overlaps(); len(ov) > 0 {
		c.oracleFail("two tasks at a time with concurrent submitters: "+ov[0], "queue-overlap", replay(obs))
		return false
	}
	// each exactly once, strictly alternating start/end of the same task
	seen := map[int]bool{}
	lastOf := make([]int, g)
	for i := range lastOf {
		lastOf[i] = -1
	}
	renum := make([]int, 0, len(obs))
	if len(obs) != 2*total {
		c.oracleFail(fmt.Sprintf("%d submitters x %d tasks produced %d start/end events instead of %d (a task ran twice): [%s]", g, n, len(obs), 2*total, c15LogStr(obs)), "queue-ran-twice", replay(obs))
		return false
	}
	for i := 0; i < len(obs); i += 2 {
		if obs[i]%2 != 0 || obs[i+1] != obs[i]+1 {
			c.oracleFail(fmt.Sprintf("log of %d submitters x %d tasks is not a sequence of start/end pairs of %d tasks: [%s]", g, n, total, c15LogStr(obs)), "queue-overlap", replay(obs))
			return false
		}
		id := obs[i] / 2
		if seen[id] {
			c.oracleFail(fmt.Sprintf("task %d ran twice", id), "queue-ran-twice", replay(obs))
			return false
		}
		seen[id] = true
		a, k := id/n, id%n
		if k != lastOf[a]+1 {
			c.oracleFail(fmt.Sprintf("submitter %d's tasks do not start in its submission order: task %d after %d; log [%s]", a, k, lastOf[a], c15LogStr(obs)), "queue-not-fifo", replay(obs))
			return false
		}
		lastOf[a] = k
		renum = append(renum, i, i+1) // renumbered by start order: pair number i/2 -> start 2*(i/2), end 2*(i/2)+1
	}
	if emit {
		c.addCase("C15conc", VL{VN(total), vns(renum)}, fmt.Sprintf("%s %dx%d", kind, g, n))
	}
	c.count(fmt.Sprintf("%s|%v", kind, obs), true, "kind="+kind)
	return true
}

// c15PingPong aims at the race named in the property: a Submit arriving at the very moment the worker
// finds the queue empty.  One submitter pushes task k+1 the instant task k signals (as its last action)
// that it is finishing, after a swept delay of 0..63 spins, so the Push lands before, inside or after the
// worker's final fetch (the task itself returns 0..127 spins after signalling).  Nothing else is ever submitted, so a task left behind stays behind: time-out.
var c15Sink, c15Sink2 int64

func c15PingPong(c *Ctx, iters int, logged bool) bool {
	s, err := c15NewSys()
	if err != nil {
		c.oracleFail("cannot build a connection: "+err.Error(), "c15-setup", nil)
		return false
	}
	var flag int64 = -1
	var next, disorder int64 // unlogged runs: the k-th task to run must be task k (once each, in order)
	waitFor := func(k int64) bool {
		t0 := time.Now()
		for spins := 1; atomic.LoadInt64(&flag) != k; spins++ {
			if spins%2048 == 0 {
				if time.Since(t0) > c15Timeout {
					return false
				}
				runtime.Gosched()
			}
		}
		return true
	}
	stranded := func(k int) bool {
		c.oracleFail(fmt.Sprintf("stranded task: task %d was submitted the moment task %d finished (the worker was finding the queue empty); no task is running and it never starts (tasks 0..%d ran, one after the other)",
			k, k-1, k-1), "queue-stranded-task", map[string]any{"scenario": "ping-pong", "task": k, "tasks_run": atomic.LoadInt64(&next)})
		return false
	}
	maxD, maxE := []int{0, 8, 16, 64}[c.Rng.Intn(4)], []int{0, 32, 64, 128}[c.Rng.Intn(4)]
	for k := 0; k < iters; k++ {
		if k > 0 && !waitFor(int64(k-1)) {
			return stranded(k)
		}
		for d := c.Rng.Intn(maxD + 1); d > 0; d-- {
			atomic.AddInt64(&c15Sink, 1)
		}
		id, e := k, c.Rng.Intn(maxE+1)
		s.conn.Async(func() {
			if logged {
				s.enter(id)
				s.leave(id)
			} else {
				if atomic.AddInt32(&s.running, 1) != 1 {
					atomic.StoreInt64(&disorder, 1)
				}
				if !atomic.CompareAndSwapInt64(&next, int64(id), int64(id)+1) {
					atomic.StoreInt64(&disorder, 2)
				}
				atomic.AddInt32(&s.running, -1)
			}
			atomic.StoreInt64(&flag, int64(id))
			for ; e > 0; e-- { // the task returns 0..maxE spins after signalling
				atomic.AddInt64(&c15Sink2, 1)
			}
		})
	}
	if !waitFor(int64(iters - 1)) {
		return stranded(iters)
	}
	time.Sleep(100 * time.Microsecond)
	if d := atomic.LoadInt64(&disorder); d != 0 || (!logged && atomic.LoadInt64(&next) != int64(iters)) {
		what := map[int64]string{0: "a task ran twice", 1: "two tasks at a time", 2: "a task ran twice or out of submission order"}[d]
		c.oracleFail(fmt.Sprintf("ping-pong of %d tasks: %s", iters, what), map[int64]string{0: "queue-ran-twice", 1: "queue-overlap", 2: "queue-not-fifo"}[d], map[string]any{"scenario": "ping-pong", "tasks": iters})
		return false
	}
	if logged {
		obs := s.snapshot()
		if ov := s.overlaps(); len(ov) > 0 {
			c.oracleFail("two tasks at a time (ping-pong): "+ov[0], "queue-overlap", map[string]any{"scenario": "ping-pong"})
			return false
		}
		if len(obs) != 2*iters {
			c.oracleFail(fmt.Sprintf("ping-pong of %d tasks produced %d start/end events", iters, len(obs)), "queue-ran-twice", map[string]any{"scenario": "ping-pong"})
			return false
		}
		for i, e := range obs {
			if e != i {
				c.oracleFail(fmt.Sprintf("ping-pong: log entry %d is %s, expected %s", i, c15LogStr([]int{e}), c15LogStr([]int{i})), "queue-not-fifo", map[string]any{"scenario": "ping-pong"})
				return false
			}
		}
		c.addCase("C15conc", VL{VN(iters), vns(obs)}, fmt.Sprintf("pingpong %d", iters))
	}
	c.Sum.Evaluations += iters - 1
	c.count(fmt.Sprintf("pingpong|%d|%d", iters, c.Rng.Int63()), true, "kind=pingpong")
	c.Sum.Distribution["pingpong-submissions"] += iters
	return true
}

func runC15(c *Ctx) error {
	maxLen, nRandom, bigRounds, miniRounds := 9, 12, 12, 3000
	if !c.quick() {
		maxLen, nRandom, bigRounds, miniRounds = 13, 120, 150, 40000
	}
	c.Sum.Rule = fmt.Sprintf("Conn.Async on a real client Conn (in-memory transport) with harness-controlled blocking tasks: (a) every sequence of submit / complete-the-running-task events of length 1..%d "+
		"(complete only when a task is running), log compared with a FIFO single-server oracle after every event (timeout = stranded), then drained; (b) %d random sequences of 500 events with varying submit bias; "+
		"(c) %d rounds of 8 concurrent submitters x 50 non-blocking tasks and %d mini-rounds of 2-3 submitters x 1-3 tasks on a reused connection, and ping-pong runs (one submitter pushes task k+1 the instant task k signals its end, both sides' delays swept over 0..63 / 0..127 spins: the last-submit / worker-exit race). "+
		"non-trivial = at least two tasks; distinct by event sequence / observed log", maxLen, nRandom, bigRounds, miniRounds)
	fails := 0
	bad := func() bool { fails++; return fails >= 3 }

	// ---- (a) exhaustive
	var rec func(prefix []int, sub, comp int) bool
	rec = func(prefix []int, sub, comp int) bool {
		if len(prefix) > 0 {
			if !c15RunSeq(c, prefix, "enum", true) && bad() {
				return false
			}
		}
		if len(prefix) == maxLen {
			return true
		}
		if !rec(append(append([]int(nil), prefix...), 0), sub+1, comp) {
			return false
		}
		if sub > comp {
			if !rec(append(append([]int(nil), prefix...), 1), sub, comp+1) {
				return false
			}
		}
		return true
	}
	if !rec(nil, 0, 0) {
		return nil
	}

	// ---- (b) random long sequences
	for r := 0; r < nRandom; r++ {
		bias := 0.25 + 0.5*c.Rng.Float64()
		evs := make([]int, 0, 500)
		sub, comp := 0, 0
		for len(evs) < 500 {
			if sub > comp && c.Rng.Float64() >= bias {
				evs = append(evs, 1)
				comp++
			} else {
				evs = append(evs, 0)
				sub++
			}
			if len(evs)%100 == 0 { // change regime: fill up / drain phases
				bias = 0.15 + 0.7*c.Rng.Float64()
			}
		}
		if !c15RunSeq(c, evs, "random", true) && bad() {
			return nil
		}
	}

	// ---- (c) concurrent submitters
	for r := 0; r < bigRounds; r++ {
		s, err := c15NewSys()
		if err != nil {
			return err
		}
		if !c15Concurrent(c, s, 8, 50, "concurrent", r < 12) && bad() {
			return nil
		}
	}
	ppRuns, ppIters := 30, 50000
	if !c.quick() {
		ppRuns, ppIters = 300, 50000
	}
	if !c15PingPong(c, 150, true) && bad() {
		return nil
	}
	for r := 0; r < ppRuns; r++ {
		if !c15PingPong(c, ppIters, false) && bad() {
			return nil
		}
	}
	// ---- (d) the queue as the asynchronous write APIs use it: callbacks of WriteAsync / WritevAsync are tasks of the
	// same queue - one at a time, in submission order - also across the moment the connection becomes closed
	for _, server := range []bool{true, false} {
		for _, api := range []string{"WriteAsync", "WritevAsync"} {
			for _, ending := range []string{"local-close", "none"} {
				spec := connSpec{Server: server}
				conn, tap, err := spec.open(&recHandler{})
				if err != nil {
					return err
				}
				gate := make(chan struct{}, 16)
				entered := make(chan int, 16)
				tap.mu.Lock()
				tap.gate, tap.gateEntered = gate, entered
				tap.mu.Unlock()
				var mu sync.Mutex
				var order []int
				running := 0
				overlap := false
				cb := func(i int) func(error) {
					return func(error) {
						mu.Lock()
						running++
						if running > 1 {
							overlap = true
						}
						order = append(order, i)
						mu.Unlock()
						time.Sleep(200 * time.Microsecond)
						mu.Lock()
						running--
						mu.Unlock()
					}
				}
				submit := func(i int) {
					p := []byte(fmt.Sprintf("async-%d", i))
					if api == "WriteAsync" {
						conn.WriteAsync(gws.OpcodeBinary, p, cb(i))
					} else {
						conn.WritevAsync(gws.OpcodeBinary, [][]byte{p}, cb(i))
					}
				}
				tag0 := fmt.Sprintf("async callbacks role=%s api=%s ending=%s", roleName(server), api, ending)
				if !runWithTimeout(2*time.Second, func() { submit(1) }) {
					// the asynchronous API must hand the write to the queue and return; here the caller itself sits in the transport
					c.oracleFail(fmt.Sprintf("%s did not return while the transport was stalled: the write ran on the caller's goroutine, not as a task of the queue [%s]", api, tag0),
						"async-write-outside-queue", map[string]any{"tag": tag0})
					for i := 0; i < 8; i++ {
						gate <- struct{}{}
					}
					_ = tap.Close()
					c.count(tag0, true, "kind=async-callbacks")
					continue
				}
				select { // task 1 is inside the transport
				case <-entered:
				case <-time.After(5 * time.Second):
				}
				submit(2)
				if ending == "local-close" {
					go func() { _ = conn.WriteClose(1000, nil) }() // sets the closed flag at once, then waits for the write lock
					time.Sleep(5 * time.Millisecond)
				}
				submit(3)
				mu.Lock()
				early := append([]int(nil), order...)
				mu.Unlock()
				for i := 0; i < 8; i++ {
					gate <- struct{}{}
				}
				deadline := time.Now().Add(5 * time.Second)
				for time.Now().Before(deadline) {
					mu.Lock()
					n := len(order)
					mu.Unlock()
					if n == 3 {
						break
					}
					time.Sleep(time.Millisecond)
				}
				mu.Lock()
				final := append([]int(nil), order...)
				ov := overlap
				mu.Unlock()
				tag := fmt.Sprintf("async callbacks role=%s api=%s ending=%s", roleName(server), api, ending)
				replay := map[string]any{"tag": tag, "callbacks_before_release": fmt.Sprint(early), "callback_order": fmt.Sprint(final)}
				switch {
				case len(early) != 0:
					c.oracleFail(fmt.Sprintf("callback(s) %v ran while task 1 was still running inside the transport (tasks must run one at a time, in submission order) [%s]", early, tag), "async-callback-outside-queue", replay)
				case len(final) != 3 || final[0] != 1 || final[1] != 2 || final[2] != 3:
					c.oracleFail(fmt.Sprintf("callbacks ran in order %v, submitted 1 2 3 [%s]", final, tag), "async-callback-order", replay)
				case ov:
					c.oracleFail("two callbacks of the asynchronous write API overlapped ["+tag+"]", "async-callback-overlap", replay)
				}
				_ = tap.Close()
				c.count(tag, true, "kind=async-callbacks")
			}
		}
	}
	// ---- (e) one goroutine mixes the asynchronous entry points while a plain task occupies the worker (the write lock is
	// free): everything goes onto the wire, and every callback runs, in queueing order
	for _, server := range []bool{true, false} {
		for _, pmd := range []bool{false, true} {
			spec := connSpec{Server: server, PMD: pmd}
			conn, tap, err := spec.open(&recHandler{})
			if err != nil {
				return err
			}
			release := make(chan struct{})
			started := make(chan struct{})
			var mu sync.Mutex
			var order []string
			rec := func(name string) {
				mu.Lock()
				order = append(order, name)
				mu.Unlock()
			}
			conn.Async(func() { close(started); <-release; rec("blocker") })
			<-started
			conn.WritevAsync(gws.OpcodeBinary, [][]byte{[]byte("A-"), []byte("writev")}, func(error) { rec("A") })
			conn.WriteAsync(gws.OpcodeBinary, []byte("B-write"), func(error) { rec("B") })
			conn.Async(nil) // an optional hook left unset: ignored, and it must not stop the queue
			b := gws.NewBroadcaster(gws.OpcodeBinary, []byte("C-broadcast"))
			_ = b.Broadcast(conn)
			conn.WriteAsync(gws.OpcodePing, []byte("P-ping"), func(error) { rec("P") }) // a control frame waits its turn like any task
			conn.WriteAsync(gws.OpcodeBinary, []byte("D-write"), func(error) { rec("D") })
			conn.Async(func() { rec("end") })
			time.Sleep(2 * time.Millisecond)
			wroteEarly := tap.numWrites()
			close(release)
			deadline := time.Now().Add(5 * time.Second)
			for time.Now().Before(deadline) {
				mu.Lock()
				n := len(order)
				mu.Unlock()
				if n >= 6 {
					break
				}
				time.Sleep(time.Millisecond)
			}
			_ = b.Close()
			mu.Lock()
			got := strings.Join(order, " ")
			mu.Unlock()
			var wire []string
			rx := &rfcReceiver{server: server}
			if msgs, problem := rx.receive(tap.written()); problem == "" {
				for _, m := range msgs {
					wire = append(wire, string(head(m.Payload, 1)))
				}
			}
			tag := fmt.Sprintf("mixed async entry points role=%s pmd=%v", roleName(server), pmd)
			replay := map[string]any{"tag": tag, "callback_order": got, "wire_order": strings.Join(wire, " "), "writes_before_the_worker_was_free": wroteEarly}
			switch {
			case wroteEarly != 0:
				c.oracleFail(fmt.Sprintf("%d frame(s) reached the transport while an earlier task of the queue was still running (queued writes must wait their turn) [%s]", wroteEarly, tag), "async-write-outside-queue", replay)
			case got != "blocker A B P D end":
				c.oracleFail(fmt.Sprintf("callbacks ran in order [%s], queued as [blocker A B P D end] [%s]", got, tag), "async-callback-order", replay)
			case strings.Join(wire, " ") != "A B C P D":
				c.oracleFail(fmt.Sprintf("messages reached the wire in order [%s], queued as [A B C P D] [%s]", strings.Join(wire, " "), tag), "async-wire-order", replay)
			}
			_ = tap.Close()
			c.count(tag, true, "kind=async-mixed")
		}
	}
	// ---- (f) tasks still queued when the connection ends and ReadLoop finishes are run all the same (their writes report
	// the closed connection): every submitted task runs exactly once
	for _, server := range []bool{true, false} {
		for _, ending := range []string{"peer-close", "eof", "local-close"} {
			spec := connSpec{Server: server}
			conn, tap, err := spec.open(&recHandler{})
			if err != nil {
				return err
			}
			release := make(chan struct{})
			started := make(chan struct{})
			var mu sync.Mutex
			ran := map[string]int{}
			rec := func(name string) {
				mu.Lock()
				ran[name]++
				mu.Unlock()
			}
			conn.Async(func() { close(started); <-release; rec("slow") })
			<-started
			conn.WriteAsync(gws.OpcodeBinary, []byte("queued-1"), func(error) { rec("w1") })
			conn.WritevAsync(gws.OpcodeBinary, [][]byte{[]byte("queued-2")}, func(error) { rec("w2") })
			conn.Async(func() { rec("plain") })
			rl := make(chan struct{})
			go func() { defer close(rl); conn.ReadLoop() }()
			switch ending {
			case "peer-close":
				tap.feed(dataFrame(8, true, server, []byte{0x03, 0xe8}))
			case "eof":
				tap.setEOF()
			case "local-close":
				_ = conn.WriteClose(1000, nil)
			}
			select {
			case <-rl:
			case <-time.After(5 * time.Second):
			}
			time.Sleep(5 * time.Millisecond)
			close(release)
			deadline := time.Now().Add(3 * time.Second)
			for time.Now().Before(deadline) {
				mu.Lock()
				n := len(ran)
				mu.Unlock()
				if n == 4 {
					break
				}
				time.Sleep(time.Millisecond)
			}
			mu.Lock()
			got := fmt.Sprint(ran)
			ok := ran["slow"] == 1 && ran["w1"] == 1 && ran["w2"] == 1 && ran["plain"] == 1 && len(ran) == 4
			mu.Unlock()
			tag := fmt.Sprintf("tasks queued across the end of the connection role=%s ending=%s", roleName(server), ending)
			if !ok {
				c.oracleFail(fmt.Sprintf("tasks submitted before the connection ended did not all run exactly once: %s, want slow, w1, w2, plain once each [%s]", got, tag),
					"async-task-lost", map[string]any{"tag": tag, "ran": got})
			}
			_ = tap.Close()
			c.count(tag, true, "kind=async-across-teardown")
		}
	}
	s, err := c15NewSys()
	if err != nil {
		return err
	}
	for r := 0; r < miniRounds; r++ {
		if !c15Concurrent(c, s, 2+c.Rng.Intn(2), 1+c.Rng.Intn(3), "mini", r%200 == 0) {
			if bad() {
				return nil
			}
			if s, err = c15NewSys(); err != nil {
				return err
			}
		}
		if r%500 == 499 { // keep the log short
			if s, err = c15NewSys(); err != nil {
				return err
			}
		}
	}

	// ---- (g) a deep queue: a stalled first task while one producer keeps submitting (a slow peer and a busy
	// application): every task runs once, in order, however many are pending (more than 2^16, the next integer width
	// below the queue's 32-bit element handles)
	{
		deep := 70000
		if !c.quick() {
			deep = 300000
		}
		tag := fmt.Sprintf("deep queue of %d pending tasks", deep)
		ds, err := c15NewSys()
		if err != nil {
			return err
		}
		gate := make(chan struct{})
		order := make([]int32, 0, deep)
		var omu sync.Mutex
		fin := make(chan struct{})
		perr := ""
		func() {
			defer func() {
				if r := recover(); r != nil {
					perr = fmt.Sprint(r)
				}
			}()
			ds.conn.Async(func() { <-gate })
			for i := 0; i < deep; i++ {
				i := int32(i)
				ds.conn.Async(func() {
					omu.Lock()
					order = append(order, i)
					omu.Unlock()
				})
			}
			ds.conn.Async(func() { close(fin) })
		}()
		close(gate)
		if perr != "" {
			c.oracleFail(fmt.Sprintf("%s: submitting panicked: %s", tag, perr), "async-deep-queue", map[string]any{"tag": tag})
		} else {
			select {
			case <-fin:
			case <-time.After(60 * time.Second):
				c.oracleFail(tag+": the last task did not run within 60 s", "async-deep-queue", map[string]any{"tag": tag})
			}
			omu.Lock()
			bad := -1
			for i := range order {
				if int(order[i]) != i {
					bad = i
					break
				}
			}
			n := len(order)
			omu.Unlock()
			if n != deep || bad >= 0 {
				c.oracleFail(fmt.Sprintf("%s: %d tasks ran, first out-of-order position %d", tag, n, bad), "async-deep-queue", map[string]any{"tag": tag, "ran": n, "first_bad": bad})
			}
		}
		c.count(tag, true, "kind=deep-queue")
	}
	return nil
}
