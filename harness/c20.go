package main

import (
	"fmt"
	"os"
	"strings"
	"sync/atomic"
	"time"

	"github.com/lxzan/gws"
)

func init() { runners["C20"] = runC20 }

// C20: internal.Deque[int] (through gws.VerifDeque) against a plain Go slice of (handle, value) after every call.
//
// A sequence is a list of abstract calls; a handle argument is given by POSITION in the target deque's
// current sequence (so it is always a live handle), or -1 for the Nil handle (InsertAfter/InsertBefore
// return nil, MoveTo*/Update/Remove are no-ops: the only dead handle for which deque.go defines behaviour).
// Up to two deques exist: deque 1 is created by Clone (of deque 0) and afterwards calls go to either.
// After EVERY call both deques are observed (Len, Front/Back address, (address,value) in Range order,
// Get(address).Value for every live address) and compared with
//   (a) the slice model below = the property's own oracle (oracleFail on disagreement or panic);
//   (b) Model/Deque.v, by recording the calls, their results and all observations (addCase).

const (
	opPushFront = iota
	opPushBack
	opPopFront
	opPopBack
	opInsertAfter
	opInsertBefore
	opMoveToBack
	opMoveToFront
	opUpdate
	opRemove
	opReset
	opClone
)

var c20OpName = []string{"PushFront", "PushBack", "PopFront", "PopBack", "InsertAfter", "InsertBefore", "MoveToBack", "MoveToFront", "Update", "Remove", "Reset", "Clone"}

type c20Op struct {
	which int // deque the call is made on
	opc   int
	pos   int // position of the handle argument in that deque's sequence, -1 = Nil
}

type c20Item struct {
	h uint32
	v int
}

// the plain sequence (property oracle)
type c20Seq struct {
	present bool
	items   []c20Item
}

func (s *c20Seq) index(h uint32) int {
	for i, it := range s.items {
		if it.h == h {
			return i
		}
	}
	return -1
}
func (s *c20Seq) insertAt(i int, it c20Item) {
	s.items = append(s.items, c20Item{})
	copy(s.items[i+1:], s.items[i:])
	s.items[i] = it
}
func (s *c20Seq) removeAt(i int) c20Item {
	it := s.items[i]
	s.items = append(s.items[:i], s.items[i+1:]...)
	return it
}

type c20Obs struct {
	ln          int
	front, back uint32
	addrs       []uint32
	vals        []int
	getvals     []int
}

type c20Call struct {
	op  c20Op
	h   uint32
	v   int
	res int
}

type c20Runner struct {
	c       *Ctx
	beat    atomic.Int64 // progress counter for the hang watchdog: bumped on entering every call into gws
	inGws   atomic.Int32 // 1 while a call into gws (or an observation of a deque) is in flight
	current atomic.Value // description of the sequence being run (for the watchdog)
	fails   int
	mode    int // 0 = normal (a failing sequence is shrunk, then reported), 1 = quiet (shrink candidate), 2 = report as is
	lastLen int // quiet mode: number of calls made when the failure showed
	seqs    int
	calls   int
	opDist  [12]int
	maxLen  int
	resets  int // auto-resets / resets seen with a non-empty free list afterwards reused
	reuse   int // pushes that got a recycled address
}

func (r *c20Runner) enter() { r.beat.Add(1); r.inGws.Store(1) }
func (r *c20Runner) leave() { r.inGws.Store(0) }

func c20Describe(cap int, calls []c20Call) []string {
	start := fmt.Sprintf("d0 := New(%d)", cap)
	if cap < 0 {
		start = "var d0 Deque[int] (zero value)"
	}
	out := []string{start}
	for _, k := range calls {
		d := fmt.Sprintf("d%d", k.op.which)
		switch k.op.opc {
		case opPushFront, opPushBack:
			out = append(out, fmt.Sprintf("%s.%s(%d) -> addr %d", d, c20OpName[k.op.opc], k.v, k.res))
		case opPopFront, opPopBack:
			out = append(out, fmt.Sprintf("%s.%s() -> %d", d, c20OpName[k.op.opc], k.res))
		case opInsertAfter, opInsertBefore:
			out = append(out, fmt.Sprintf("%s.%s(%d, mark=%d) -> addr %d", d, c20OpName[k.op.opc], k.v, k.h, k.res))
		case opUpdate:
			out = append(out, fmt.Sprintf("%s.Update(%d, %d)", d, k.h, k.v))
		case opMoveToBack, opMoveToFront, opRemove:
			out = append(out, fmt.Sprintf("%s.%s(%d)", d, c20OpName[k.op.opc], k.h))
		case opReset:
			out = append(out, d+".Reset()")
		case opClone:
			out = append(out, fmt.Sprintf("d%d := %s.Clone()", 1-k.op.which, d))
		}
	}
	return out
}

// observe reads everything the accessor offers; a panic inside is returned as an error string
func c20Observe(d *gws.VerifDeque) (o c20Obs, perr string) {
	defer func() {
		if r := recover(); r != nil {
			perr = fmt.Sprint(r)
		}
	}()
	o.ln = d.Len()
	o.front, o.back = d.FrontAddr(), d.BackAddr()
	o.addrs, o.vals = d.Items()
	o.getvals = make([]int, len(o.addrs))
	for i, a := range o.addrs {
		if a == 0 {
			o.getvals[i] = -1 << 40 // Get(0) is nil; an element with address 0 is reported by the comparison below
			continue
		}
		o.getvals[i] = d.ValueAt(a)
	}
	return
}

func c20Call1(d *gws.VerifDeque, opc int, h uint32, v int) (res int, perr string) {
	defer func() {
		if r := recover(); r != nil {
			perr = fmt.Sprint(r)
		}
	}()
	switch opc {
	case opPushFront:
		res = int(d.PushFront(v))
	case opPushBack:
		res = int(d.PushBack(v))
	case opPopFront:
		res = d.PopFront()
	case opPopBack:
		res = d.PopBack()
	case opInsertAfter:
		res = int(d.InsertAfter(v, h))
	case opInsertBefore:
		res = int(d.InsertBefore(v, h))
	case opMoveToBack:
		d.MoveToBack(h)
	case opMoveToFront:
		d.MoveToFront(h)
	case opUpdate:
		d.Update(h, v)
	case opRemove:
		d.Remove(h)
	case opReset:
		d.Reset()
	}
	return
}

// what the plain sequence says about one observation; "" = agrees
func c20Compare(s *c20Seq, o *c20Obs) string {
	if o.ln != len(s.items) {
		return fmt.Sprintf("Len() = %d, sequence has %d elements", o.ln, len(s.items))
	}
	if len(o.addrs) != len(s.items) {
		return fmt.Sprintf("Range visits %d elements, sequence has %d", len(o.addrs), len(s.items))
	}
	for i, it := range s.items {
		if o.vals[i] != it.v {
			return fmt.Sprintf("Range element %d has value %d, sequence has %d", i, o.vals[i], it.v)
		}
		if o.addrs[i] != it.h {
			return fmt.Sprintf("Range element %d has address %d, but the element at that position was handed out as %d (handle not stable)", i, o.addrs[i], it.h)
		}
		if o.getvals[i] != it.v {
			return fmt.Sprintf("Get(%d).Value() = %d, the live element with that handle has value %d", it.h, o.getvals[i], it.v)
		}
	}
	wantF, wantB := uint32(0), uint32(0)
	if n := len(s.items); n > 0 {
		wantF, wantB = s.items[0].h, s.items[n-1].h
	}
	if o.front != wantF {
		return fmt.Sprintf("Front() has address %d, first element of the sequence has %d", o.front, wantF)
	}
	if o.back != wantB {
		return fmt.Sprintf("Back() has address %d, last element of the sequence has %d", o.back, wantB)
	}
	return ""
}

func c20ObsV(present bool, o *c20Obs) V {
	if !present {
		return VL{VN(0)}
	}
	items := make(VL, 0, 2*len(o.addrs))
	for i := range o.addrs {
		items = append(items, VN(o.addrs[i]), VZ(o.vals[i]))
	}
	return VL{VN(1), VZ(o.ln), VN(o.front), VN(o.back), items}
}

// run executes one sequence from a fresh deque. record: also add the case for the Coq model.
// Returns false when the oracle failed.
func (r *c20Runner) run(cap int, ops []c20Op, record bool, tag string) bool {
	c := r.c
	r.seqs++
	var dq [2]*gws.VerifDeque
	var seq [2]c20Seq
	calls := make([]c20Call, 0, len(ops))
	r.current.Store(func() any {
		return map[string]any{"calls": c20Describe(cap, calls), "next": "the call after the last one listed (or the observation after it) did not return"}
	})
	fail := func(what string) bool {
		switch r.mode {
		case 1:
			r.lastLen = len(calls)
		case 0:
			// shrink: drop calls one at a time while the (possibly different) failure persists
			min := r.shrink(cap, ops[:len(calls)])
			r.mode = 2
			if r.run(cap, min, false, "") { // cannot happen (min failed a moment ago); report the original
				r.fails++
				c.oracleFail(what, "deque-vs-plain-sequence", map[string]any{"calls": c20Describe(cap, calls)})
			}
			r.mode = 0
		default:
			r.fails++
			c.oracleFail(what, "deque-vs-plain-sequence", map[string]any{"calls": c20Describe(cap, calls)})
		}
		return false
	}
	{
		var perr string
		func() {
			defer func() {
				if x := recover(); x != nil {
					perr = fmt.Sprint(x)
				}
			}()
			dq[0] = gws.NewVerifDeque(cap)
		}()
		if perr != "" {
			return fail("New panics: " + perr)
		}
	}
	seq[0].present = true
	var steps VL
	if record {
		steps = make(VL, 0, len(ops))
	}
	for k, op := range ops {
		w := op.which
		s := &seq[w]
		v := 100 + k
		var h uint32
		if op.pos >= 0 {
			h = s.items[op.pos].h
		}
		r.calls++
		r.opDist[op.opc]++
		call := c20Call{op: op, h: h, v: v}
		if op.opc == opClone {
			var perr string
			func() {
				defer func() {
					if x := recover(); x != nil {
						perr = fmt.Sprint(x)
					}
				}()
				r.enter()
				dq[1-w] = dq[w].Clone()
				r.leave()
			}()
			calls = append(calls, call)
			if perr != "" {
				return fail("Clone panics: " + perr)
			}
			seq[1-w] = c20Seq{present: true, items: append([]c20Item(nil), s.items...)}
		} else {
			r.enter()
			res, perr := c20Call1(dq[w], op.opc, h, v)
			r.leave()
			call.res = res
			calls = append(calls, call)
			if perr != "" {
				return fail(fmt.Sprintf("%s panics: %s", c20OpName[op.opc], perr))
			}
			// the plain-sequence meaning of the call
			switch op.opc {
			case opPushFront, opPushBack, opInsertAfter, opInsertBefore:
				if (op.opc == opInsertAfter || op.opc == opInsertBefore) && h == 0 {
					if res != 0 {
						return fail(fmt.Sprintf("%s with the Nil mark returned an element (address %d)", c20OpName[op.opc], res))
					}
					break
				}
				if res == 0 {
					return fail(fmt.Sprintf("%s returned the Nil address for the new element", c20OpName[op.opc]))
				}
				if s.index(uint32(res)) >= 0 {
					return fail(fmt.Sprintf("%s returned address %d, which is the handle of another live element", c20OpName[op.opc], res))
				}
				it := c20Item{uint32(res), v}
				switch op.opc {
				case opPushFront:
					s.insertAt(0, it)
				case opPushBack:
					s.insertAt(len(s.items), it)
				case opInsertAfter:
					s.insertAt(op.pos+1, it)
				case opInsertBefore:
					s.insertAt(op.pos, it)
				}
				if len(s.items) > r.maxLen {
					r.maxLen = len(s.items)
				}
			case opPopFront, opPopBack:
				want := 0
				if n := len(s.items); n > 0 {
					if op.opc == opPopFront {
						want = s.removeAt(0).v
					} else {
						want = s.removeAt(n - 1).v
					}
				}
				if res != want {
					return fail(fmt.Sprintf("%s returned %d, the sequence gives %d", c20OpName[op.opc], res, want))
				}
			case opMoveToBack:
				if h != 0 {
					it := s.removeAt(op.pos)
					s.insertAt(len(s.items), it)
				}
			case opMoveToFront:
				if h != 0 {
					it := s.removeAt(op.pos)
					s.insertAt(0, it)
				}
			case opUpdate:
				if h != 0 {
					s.items[op.pos].v = v
				}
			case opRemove:
				if h != 0 {
					s.removeAt(op.pos)
				}
			case opReset:
				s.items = s.items[:0]
			}
		}
		// observe both deques
		var obs [2]c20Obs
		for i := 0; i < 2; i++ {
			if !seq[i].present {
				continue
			}
			var perr string
			r.enter()
			obs[i], perr = c20Observe(dq[i])
			r.leave()
			if perr != "" {
				return fail(fmt.Sprintf("observing d%d after the last call panics: %s", i, perr))
			}
			if msg := c20Compare(&seq[i], &obs[i]); msg != "" {
				if i != w && op.opc != opClone {
					msg += fmt.Sprintf(" (d%d was not the target of the call: clone and original are not independent)", i)
				}
				return fail(fmt.Sprintf("after the last call, d%d: %s", i, msg))
			}
		}
		if record {
			steps = append(steps, VL{VN(w), VN(op.opc), VN(h), VZ(v), VZ(call.res), c20ObsV(seq[0].present, &obs[0]), c20ObsV(seq[1].present, &obs[1])})
		}
	}
	if record {
		c.addCase("C20", VL{VZ(cap), steps}, tag)
	}
	return true
}

// c20Valid: every call goes to an existing deque and every position names a live element
func c20Valid(ops []c20Op) bool {
	lens, hasB := [2]int{}, false
	for _, o := range ops {
		if o.which == 1 && !hasB {
			return false
		}
		L := lens[o.which]
		if o.pos >= L {
			return false
		}
		switch o.opc {
		case opPushFront, opPushBack:
			lens[o.which]++
		case opPopFront, opPopBack:
			if L > 0 {
				lens[o.which]--
			}
		case opInsertAfter, opInsertBefore:
			if o.pos >= 0 {
				lens[o.which]++
			}
		case opRemove:
			if o.pos >= 0 {
				lens[o.which]--
			}
		case opReset:
			lens[o.which] = 0
		case opClone:
			lens[1-o.which], hasB = L, true
		}
	}
	return true
}

func (r *c20Runner) shrink(cap int, ops []c20Op) []c20Op {
	seqs, calls, dist, maxLen := r.seqs, r.calls, r.opDist, r.maxLen
	r.mode = 1
	defer func() { r.mode, r.seqs, r.calls, r.opDist, r.maxLen = 0, seqs, calls, dist, maxLen }()
	cur := append([]c20Op(nil), ops...)
	budget := 3000
	for pass := 0; pass < 3 && budget > 0; pass++ {
		for chunk := (len(cur) + 1) / 2; chunk >= 1 && budget > 0; chunk /= 2 {
			for i := 0; i+chunk <= len(cur) && budget > 0; {
				cand := append(append([]c20Op(nil), cur[:i]...), cur[i+chunk:]...)
				if c20Valid(cand) {
					budget--
					if !r.run(cap, cand, false, "") {
						cur = cand[:r.lastLen]
						continue
					}
				}
				i += chunk
			}
		}
	}
	return cur
}

type c20Enum struct {
	r        *c20Runner
	cap      int
	depth    int
	withNil  bool
	clone    bool
	recordIf func(n int) bool
	ops      []c20Op
	n        int
	recorded int
	stop     bool
}

func c20Tag(cap int, ops []c20Op) string {
	var b strings.Builder
	fmt.Fprintf(&b, "cap=%d:", cap)
	for _, o := range ops {
		fmt.Fprintf(&b, " %d.%s", o.which, c20OpName[o.opc])
		if o.opc >= opInsertAfter && o.opc <= opRemove {
			fmt.Fprintf(&b, "@%d", o.pos)
		}
	}
	return b.String()
}

// dfs enumerates every abstract sequence of exactly e.depth calls (all shorter ones are prefixes and are
// checked on the way, because every call of a sequence is followed by a full comparison).
func (e *c20Enum) dfs(lens [2]int, hasB bool) {
	if e.stop {
		return
	}
	if len(e.ops) == e.depth {
		e.n++
		rec := e.recordIf(e.n)
		tag := ""
		if rec {
			tag = c20Tag(e.cap, e.ops)
			e.recorded++
		}
		if !e.r.run(e.cap, e.ops, rec, tag) && e.r.fails >= 8 {
			e.stop = true
		}
		return
	}
	for w := 0; w < 2; w++ {
		if w == 1 && !hasB {
			break
		}
		L := lens[w]
		for opc := opPushFront; opc <= opClone; opc++ {
			switch {
			case opc == opClone:
				if !e.clone || hasB || w != 0 {
					continue
				}
				e.ops = append(e.ops, c20Op{w, opc, -1})
				e.dfs([2]int{lens[0], lens[0]}, true)
				e.ops = e.ops[:len(e.ops)-1]
			case opc >= opInsertAfter && opc <= opRemove:
				lo := 0
				if e.withNil {
					lo = -1
				}
				for p := lo; p < L; p++ {
					nl := lens
					if p >= 0 {
						switch opc {
						case opInsertAfter, opInsertBefore:
							nl[w]++
						case opRemove:
							nl[w]--
						}
					}
					e.ops = append(e.ops, c20Op{w, opc, p})
					e.dfs(nl, hasB)
					e.ops = e.ops[:len(e.ops)-1]
				}
			default:
				nl := lens
				switch opc {
				case opPushFront, opPushBack:
					nl[w]++
				case opPopFront, opPopBack:
					if nl[w] > 0 {
						nl[w]--
					}
				case opReset:
					nl[w] = 0
				}
				e.ops = append(e.ops, c20Op{w, opc, -1})
				e.dfs(nl, hasB)
				e.ops = e.ops[:len(e.ops)-1]
			}
		}
	}
}

// random sequence of n calls; the length is steered by `target` (a function of the step) so that the
// deque repeatedly drains to empty (auto-reset, slot recycling) and, for big targets, grows the arena.
func (r *c20Runner) randomOps(n int, target func(k int) int, withClone, withReset bool) []c20Op {
	rng := r.c.Rng
	ops := make([]c20Op, 0, n)
	lens := [2]int{}
	hasB := false
	for k := 0; k < n; k++ {
		w := 0
		if hasB && rng.Intn(2) == 0 {
			w = 1
		}
		L := lens[w]
		if withClone && !hasB && k > n/4 && rng.Intn(40) == 0 {
			ops = append(ops, c20Op{0, opClone, -1})
			lens[1], hasB = lens[0], true
			continue
		}
		t := target(k)
		grow := L < t || (L == t && rng.Intn(2) == 0)
		x := rng.Intn(100)
		var op c20Op
		pos := -1
		if L > 0 {
			pos = rng.Intn(L)
			// favour the ends: they are where head/tail are rewritten
			switch rng.Intn(4) {
			case 0:
				pos = 0
			case 1:
				pos = L - 1
			}
		}
		switch {
		case x < 2 && withReset:
			op = c20Op{w, opReset, -1}
			lens[w] = 0
		case x < 5: // Nil handle
			op = c20Op{w, opInsertAfter + rng.Intn(6), -1}
		case x < 25 && L > 0:
			op = c20Op{w, []int{opMoveToBack, opMoveToFront, opUpdate}[rng.Intn(3)], pos}
		case grow || L == 0:
			switch y := rng.Intn(4); {
			case y == 0:
				op = c20Op{w, opPushFront, -1}
			case y == 1 || L == 0:
				op = c20Op{w, opPushBack, -1}
			case y == 2:
				op = c20Op{w, opInsertAfter, pos}
			default:
				op = c20Op{w, opInsertBefore, pos}
			}
			lens[w]++
			if L == 0 && rng.Intn(8) == 0 { // Pop on an empty deque returns the zero value
				op = c20Op{w, opPopFront + rng.Intn(2), -1}
				lens[w]--
			}
		default:
			switch rng.Intn(3) {
			case 0:
				op = c20Op{w, opPopFront, -1}
			case 1:
				op = c20Op{w, opPopBack, -1}
			default:
				op = c20Op{w, opRemove, pos}
			}
			lens[w]--
		}
		ops = append(ops, op)
	}
	return ops
}

func runC20(c *Ctx) error {
	r := &c20Runner{c: c}
	// watchdog: a mutated deque can contain a next-cycle, on which Range (inside the Items accessor)
	// never returns.  If the runner makes no progress for a while, the sequence in flight is the failing input.
	done := make(chan struct{})
	go func() {
		last, stalled := int64(-1), 0
		for {
			select {
			case <-done:
				return
			case <-time.After(25 * time.Millisecond):
			}
			// a stall = the same gws call in flight over 80 consecutive ticks (2 s of this goroutine's own
			// time, so a descheduled process or a slow allocation in the harness itself does not count)
			if b := r.beat.Load(); b != last || r.inGws.Load() == 0 {
				last, stalled = b, 0
				continue
			}
			stalled++
			if stalled >= 80 {
				cur := r.current.Load().(func() any)()
				c.oracleFail("a deque call or the Range over the deque does not return (cyclic links?)", "deque-vs-plain-sequence", cur)
				c.Sum.Notes = append(c.Sum.Notes, "harness stopped by the hang watchdog")
				if err := c.flush(); err != nil {
					fmt.Fprintln(os.Stderr, "harness error:", err)
					os.Exit(3)
				}
				os.Exit(0)
			}
		}
	}()
	defer close(done)

	quick := c.quick()
	type sweep struct {
		cap, depth     int
		withNil, clone bool
		every          int // record every n-th leaf for the Coq model (1 = all)
	}
	var sweeps []sweep
	if quick {
		sweeps = []sweep{
			{-1, 5, false, false, 1}, {0, 5, false, false, 1},
			{-1, 4, true, true, 1}, {0, 4, true, true, 1}, {3, 4, true, true, 7},
		}
	} else {
		sweeps = []sweep{
			{-1, 7, false, false, 2000}, {0, 7, false, false, 2000},
			{-1, 6, false, false, 10}, {0, 6, false, false, 10},
			{-1, 5, true, true, 5}, {0, 5, true, true, 5}, {3, 5, true, true, 50},
			{-1, 4, true, true, 1}, {0, 4, true, true, 1},
		}
	}
	for _, s := range sweeps {
		s := s
		e := &c20Enum{r: r, cap: s.cap, depth: s.depth, withNil: s.withNil, clone: s.clone,
			recordIf: func(n int) bool { return n%s.every == 0 }}
		e.dfs([2]int{}, false)
		key := fmt.Sprintf("exhaustive cap=%d depth=%d nil=%v clone=%v", s.cap, s.depth, s.withNil, s.clone)
		c.Sum.Distribution[key+" sequences"] = e.n
		c.Sum.Distribution[key+" sent to the Coq model"] = e.recorded
		if r.fails >= 8 {
			break
		}
	}
	exhaustive := r.seqs

	// random sequences: long ones whose length oscillates between 0 and a small bound (drain to empty =
	// auto-reset, then recycled addresses), a growth run (arena reallocations, several hundred live
	// elements, drained and refilled), and many medium ones with a clone that then diverges.
	type rnd struct {
		cap, n, period, amp int
		clone               bool
	}
	var rnds []rnd
	caps := []int{-1, 0, 1, 2, 5, 16, 100}
	if quick {
		rnds = []rnd{{-1, 10000, 300, 24, true}, {0, 10000, 170, 12, true}, {16, 10000, 90, 40, false}, {0, 3000, 1500, 400, false}}
		for i := 0; i < 400; i++ {
			rnds = append(rnds, rnd{caps[i%len(caps)], 40 + c.Rng.Intn(80), 20 + c.Rng.Intn(40), 2 + c.Rng.Intn(10), i%2 == 0})
		}
	} else {
		for i := 0; i < 12; i++ {
			rnds = append(rnds, rnd{caps[i%len(caps)], 10000, 50 + c.Rng.Intn(400), 4 + c.Rng.Intn(60), i%3 != 2})
		}
		rnds = append(rnds, rnd{0, 6000, 3000, 1200, false}, rnd{-1, 6000, 2000, 700, true})
		for i := 0; i < 6000; i++ {
			rnds = append(rnds, rnd{caps[i%len(caps)], 40 + c.Rng.Intn(120), 20 + c.Rng.Intn(40), 2 + c.Rng.Intn(12), i%2 == 0})
		}
	}
	for i, x := range rnds {
		if r.fails >= 8 {
			break
		}
		x := x
		target := func(k int) int { // triangle wave touching 0
			ph := k % x.period
			half := x.period / 2
			if ph > half {
				ph = x.period - ph
			}
			return x.amp * ph / (half + 1)
		}
		ops := r.randomOps(x.n, target, x.clone, x.amp < 100) // growth runs: no Reset, so that several hundred elements are live
		r.run(x.cap, ops, true, fmt.Sprintf("random #%d cap=%d calls=%d period=%d amp=%d clone=%v", i, x.cap, x.n, x.period, x.amp, x.clone))
		c.Sum.Distribution[fmt.Sprintf("random sequences of %s calls", lenClass(x.n))]++
	}
	// a large arena: more live elements than 2^16 (handles are 32-bit indices into the arena), observed once per phase
	{
		large := 70000
		if !quick {
			large = 400000
		}
		tag := fmt.Sprintf("large arena of %d live elements", large)
		what := func() (what string) {
			defer func() {
				if r := recover(); r != nil {
					what = fmt.Sprintf("panic: %v", r)
				}
			}()
			d := gws.NewVerifDeque(0)
			hs := make([]uint32, large)
			seen := make(map[uint32]bool, large)
			for i := 0; i < large; i++ {
				hs[i] = d.PushBack(i)
				if hs[i] == 0 || seen[hs[i]] {
					return fmt.Sprintf("PushBack #%d returned handle %d (nil or already live)", i, hs[i])
				}
				seen[hs[i]] = true
			}
			if d.Len() != large {
				return fmt.Sprintf("Len() = %d after %d PushBack calls", d.Len(), large)
			}
			for _, i := range []int{0, 1, 65534, 65535, 65536, 65537, large - 1} {
				if v := d.ValueAt(hs[i]); v != i {
					return fmt.Sprintf("element pushed as #%d reads %d through its handle", i, v)
				}
			}
			addrs, vals := d.Items()
			if len(vals) != large {
				return fmt.Sprintf("Range visits %d elements of %d", len(vals), large)
			}
			for i := range vals {
				if vals[i] != i || addrs[i] != hs[i] {
					return fmt.Sprintf("position %d holds value %d / handle %d, pushed %d / %d", i, vals[i], addrs[i], i, hs[i])
				}
			}
			// remove every third through its handle, then drain from the front
			kept := 0
			for i := 0; i < large; i += 3 {
				d.Remove(hs[i])
			}
			for i := 0; i < large; i++ {
				if i%3 == 0 {
					continue
				}
				if v := d.PopFront(); v != i {
					return fmt.Sprintf("after removing every third element, PopFront #%d gives %d, want %d", kept, v, i)
				}
				kept++
			}
			if d.Len() != 0 {
				return fmt.Sprintf("Len() = %d after draining", d.Len())
			}
			return ""
		}()
		if what != "" {
			c.oracleFail(tag+": "+what, "deque-vs-plain-sequence", map[string]any{"tag": tag})
		}
		c.count(tag, true, "kind=large-arena")
	}
	c.Sum.Distribution["exhaustive sequences"] = exhaustive
	c.Sum.Distribution["random sequences"] = r.seqs - exhaustive
	c.Sum.Distribution["calls total"] = r.calls
	c.Sum.Evaluations = r.seqs
	c.Sum.Distinct = r.seqs // distinct by construction (enumeration without repetition)
	for i, n := range r.opDist {
		c.Sum.Distribution["calls "+c20OpName[i]] = n
	}
	c.Sum.Distribution["max live length"] = r.maxLen
	c.Sum.Rule = "every sequence of exactly D calls (hence every shorter one, as a prefix) with handle arguments = every live handle [and Nil, Clone, calls on the clone where nil/clone=true] from the zero value and New(n) (D and n per sweep: see distribution); random sequences of 40..10^4 calls whose length follows a triangle wave touching 0 (auto-reset, slot reuse), growth runs, one Clone then calls on both deques; after EVERY call both deques are observed (Len, Front/Back, Range, Get) and compared with a plain slice; distinct = sequences (enumerated without repetition); evaluations = sequences, calls total in the distribution"
	return nil
}
