package main

import (
	"bufio"
	"bytes"
	"encoding/binary"
	"fmt"
	"net/http"
	"runtime"
	"strings"
	"sync/atomic"
	"time"

	"github.com/lxzan/gws"
)

func init() { runners["C04"] = runC04 }

// C04: hostile byte strings after the handshake (truncations at every offset, bit flips in headers, adversarial length
// fields, garbage) and during it; no panic, no hang, bounded allocation, exactly one close notification.
func runC04(c *Ctx) error {
	c.Sum.Rule = "malformed inbound streams: every truncation of valid multi-frame streams, single-bit flips over the first 16 bytes of each frame, 64-bit lengths with the top bit set / near 2^31 / 2^32 / 2^63, random garbage, hostile deflate streams; both roles, compression on/off, three chunkings; mutated handshake requests/responses; oracle = no panic, no hang (20 s watchdog), OnClose exactly once, transport closed, allocation bound, and the C03 reference receiver; non-trivial = stream mutated from a valid one; distinct by stream"
	specs := inboundSpecs()
	nbase := 12
	if !c.quick() {
		nbase = 150
	}
	run := func(spec connSpec, stream []byte, tag string) error {
		limit := spec.RLimit
		obs, conn, _, err := runInbound(spec, cutChunks(c, stream, c.Rng.Intn(3)))
		if err != nil {
			return err
		}
		takeover, bits := dpsParams(conn)
		o := specReceive(spec.Server, conn.VerifPD().Enabled, limit, spec.Utf8, takeover, bits, stream)
		replay := map[string]any{"spec": fmt.Sprintf("%+v", spec), "stream_hex": fmt.Sprintf("%x", head(stream, 300)), "stream_len": len(stream), "tag": tag,
			"observed_kind": obs.Kind, "observed_status": obs.A, "panic": obs.Panic}
		why, sig, skip := judgeStream(o, obs)
		if why != "" {
			c.oracleFail(why+" ["+tag+"]", sig, replay)
		}
		if obs.PeakAlloc > allocBudget(limit, len(stream), obs.Chunks) {
			c.oracleFail(fmt.Sprintf("allocated %d bytes while reading with limit %d [%s]", obs.PeakAlloc, limit, tag), "over-allocation", replay)
		}
		if !skip {
			inboundCase(c, spec, conn, stream, o, obs, tag)
		}
		c.count(fmt.Sprintf("%v%x", spec.Server, stream), true, "kind="+tag[:3], "end="+o.Kind, fmt.Sprintf("observed_kind=%d", obs.Kind))
		return nil
	}
	// a message that never ends: every fragment within the limit, the sum far above it
	for _, server := range []bool{true, false} {
		for _, limit := range []int{300, 4096} {
			for _, rsv1 := range []bool{false, true} {
				for vi, stream := range unfinishedOversize(server, limit, rsv1) {
					spec := connSpec{Server: server, PMD: rsv1 || vi%2 == 0, RLimit: limit}
					if err := run(spec, stream, fmt.Sprintf("unfinished server=%v limit=%d variant=%d compressed=%v", server, limit, vi, rsv1)); err != nil {
						return err
					}
				}
			}
		}
	}
	for i := 0; i < nbase; i++ {
		spec := specs[i%len(specs)]
		spec.RLimit = []int{70000, 300, 4096}[i%3]
		base, _ := randomStream(c, spec, 1+c.Rng.Intn(4), false)
		if len(base) > 1500 {
			base = base[:1500]
		}
		// truncation at every offset (thorough) / a spread of offsets (quick)
		step := 1
		if c.quick() {
			step = 1 + len(base)/25
		}
		for cut := 0; cut <= len(base); cut += step {
			if err := run(spec, base[:cut], fmt.Sprintf("trunc base=%d cut=%d", i, cut)); err != nil {
				return err
			}
		}
		// bit flips in the first 16 bytes of every frame
		fs, _, _ := parseFrames(base)
		off := 0
		for fi, f := range fs {
			for bit := 0; bit < 16*8 && bit/8 < len(f.Raw); bit++ {
				if c.quick() && (bit+fi+i)%5 != 0 {
					continue
				}
				m := append([]byte(nil), base...)
				m[off+bit/8] ^= 1 << uint(bit%8)
				if err := run(spec, m, fmt.Sprintf("flip base=%d frame=%d bit=%d", i, fi, bit)); err != nil {
					return err
				}
			}
			off += len(f.Raw)
		}
	}
	// adversarial length fields
	for _, spec := range specs {
		for _, decl := range []uint64{1 << 63, 1<<63 + 1, 1<<64 - 1, 1<<63 - 1, 1<<32 - 1, 1 << 32, 1<<31 - 1, 1 << 31, 1<<31 - 9, 1<<31 - 10, 70001, 70000} {
			for _, b0 := range []byte{0x82, 0x81, 0x02, 0x80, 0x89, 0x88, 0xc1} {
				var hdr [10]byte
				hdr[0], hdr[1] = b0, 127
				if spec.Server {
					hdr[1] |= 0x80
				}
				binary.BigEndian.PutUint64(hdr[2:], decl)
				stream := append(hdr[:], randBytes(c.Rng, 20)...)
				if err := run(spec, stream, fmt.Sprintf("len64 decl=%d b0=%02x", decl, b0)); err != nil {
					return err
				}
			}
		}
	}
	// garbage and hostile deflate
	ng := 150
	if !c.quick() {
		ng = 3000
	}
	for i := 0; i < ng; i++ {
		spec := specs[c.Rng.Intn(len(specs))]
		spec.RLimit = []int{70000, 300}[i%2]
		var stream []byte
		if i%2 == 0 {
			stream = randBytes(c.Rng, 1+c.Rng.Intn(200))
		} else {
			z := randBytes(c.Rng, 1+c.Rng.Intn(120))
			if i%4 == 1 {
				z = rfc7692Deflate(bytes.Repeat([]byte{0}, 1+c.Rng.Intn(400000)), nil, 9)
				if len(z) > 4 && i%8 == 1 {
					z[c.Rng.Intn(len(z))] ^= 0x10
				}
			}
			stream = encodeFrame(frameSpec{Fin: true, Rsv1: true, Opcode: 1 + i%2, Masked: spec.Server, Key: [4]byte{1, 2, 3, 4}, Payload: z, DeclLen: -1})
		}
		if err := run(spec, stream, fmt.Sprintf("garbage i=%d", i)); err != nil {
			return err
		}
	}
	// a deflate bomb: 32 MiB of zeros in about 32 KiB, within the wire limit, far beyond it inflated
	for _, server := range []bool{true, false} {
		spec := connSpec{Server: server, PMD: true, RLimit: 70000}
		z := rfc7692Deflate(make([]byte, 32<<20), nil, 9)
		stream := encodeFrame(frameSpec{Fin: true, Rsv1: true, Opcode: 2, Masked: server, Key: [4]byte{4, 3, 2, 1}, Payload: z, DeclLen: -1})
		if err := run(spec, stream, fmt.Sprintf("bomb 32MiB server=%v wire=%d", server, len(z))); err != nil {
			return err
		}
	}
	// D12 (known finding, configuration dependent): read limit 2^32, header declaring 2^31-1 bytes
	{
		spec := connSpec{Server: true, RLimit: 1 << 32}
		var hdr [14]byte
		hdr[0], hdr[1] = 0x82, 0xff
		binary.BigEndian.PutUint64(hdr[2:], 1<<31-1)
		obs, _, _, err := runInbound(spec, [][]byte{hdr[:]})
		if err != nil {
			return err
		}
		if obs.Kind == 9 {
			c.oracleFail("ReadMaxPayloadSize=2^32 and a header declaring 2^31-1 bytes: "+obs.Panic, "pool-get-uint32-wrap", map[string]any{"limit": 1 << 32, "stream_hex": fmt.Sprintf("%x", hdr[:])})
		}
		c.count("d12", true, "kind=d12")
	}
	// parallel handling with handlers slower than the peer (here: blocked): what gws takes from the transport and holds
	// is bounded by the handler limit, not by how much the peer sends
	for _, server := range []bool{true, false} {
		const limit, nmsg, msz = 2, 300, 16 << 10
		release := make(chan struct{})
		var running atomic.Int32
		h := &blockingHandler{release: release, running: &running}
		tap := newMemConn()
		var conn *gws.Conn
		var err error
		if server {
			conn, err = serverConnWith(gws.NewUpgrader(h, &gws.ServerOption{ParallelEnabled: true, ParallelGolimit: limit, ReadMaxPayloadSize: 32 << 10}), tap, nil)
		} else {
			conn, _, err = clientConn(&gws.ClientOption{ParallelEnabled: true, ParallelGolimit: limit, ReadMaxPayloadSize: 32 << 10}, h, tap, "", nil)
		}
		tag := fmt.Sprintf("parallel flood server=%v limit=%d messages=%d x %d bytes", server, limit, nmsg, msz)
		if err != nil {
			return fmt.Errorf("%s: %v", tag, err)
		}
		var chunks [][]byte
		for i := 0; i < nmsg; i++ {
			chunks = append(chunks, encodeFrame(frameSpec{Fin: true, Opcode: 2, Masked: server, Key: [4]byte{1, 2, 3, byte(i)}, Payload: randBytes(c.Rng, msz), DeclLen: -1}))
		}
		g0 := runtime.NumGoroutine()
		done := make(chan struct{})
		go func() { conn.ReadLoop(); close(done) }()
		tap.feed(chunks...)
		// wait until the endpoint has stopped taking bytes (two equal samples 50 ms apart, after the handlers are busy)
		pending := func() int {
			tap.mu.Lock()
			defer tap.mu.Unlock()
			return len(tap.chunks)
		}
		last, stable := -1, 0
		for i := 0; i < 200 && stable < 3; i++ {
			time.Sleep(20 * time.Millisecond)
			if p := pending(); p == last && int(running.Load()) >= limit {
				stable++
			} else {
				last, stable = p, 0
			}
		}
		taken := nmsg - pending()
		extra := runtime.NumGoroutine() - g0
		if taken > limit+8 || extra > limit+8 {
			c.oracleFail(fmt.Sprintf("with %d message handlers allowed (all busy), the endpoint took %d messages (%d bytes, read limit %d) from the transport and runs %d extra goroutines: what it holds grows with what the peer sends [%s]",
				limit, taken, taken*msz, 32<<10, extra, tag), "parallel-unbounded", map[string]any{"tag": tag, "taken": taken, "goroutines": extra})
		}
		close(release)
		tap.setEOF()
		select {
		case <-done:
		case <-time.After(20 * time.Second):
			c.oracleFail("read loop did not return after the handlers were released ["+tag+"]", "read-hang", map[string]any{"tag": tag})
		}
		_ = tap.Close()
		for i := 0; i < 250 && (running.Load() > 0 || runtime.NumGoroutine() > g0+1); i++ { // let the handler goroutines finish
			time.Sleep(20 * time.Millisecond)
		}
		c.count(tag, true, "kind=parallel-flood")
	}
	return runC04Handshake(c)
}

// blockingHandler: OnMessage blocks until released
type blockingHandler struct {
	gws.BuiltinEventHandler
	release chan struct{}
	running *atomic.Int32
}

func (b *blockingHandler) OnMessage(c *gws.Conn, m *gws.Message) {
	b.running.Add(1)
	<-b.release
	b.running.Add(-1)
	_ = m.Close()
}

// mutated handshake bytes in both roles: no panic / hang; (conn == nil) == (err != nil)
func runC04Handshake(c *Ctx) error {
	validReq := "GET /ws HTTP/1.1\r\nHost: x\r\nConnection: Upgrade\r\nUpgrade: websocket\r\nSec-WebSocket-Version: 13\r\nSec-WebSocket-Key: dGhlIHNhbXBsZSBub25jZQ==\r\nSec-WebSocket-Extensions: permessage-deflate; client_max_window_bits\r\nSec-WebSocket-Protocol: a, b\r\n\r\n"
	n := 300
	if !c.quick() {
		n = 6000
	}
	for i := 0; i < n; i++ {
		m := []byte(validReq)
		switch i % 4 {
		case 0:
			m = m[:c.Rng.Intn(len(m)+1)]
		case 1:
			m[c.Rng.Intn(len(m))] ^= byte(1 << uint(c.Rng.Intn(8)))
		case 2:
			p := c.Rng.Intn(len(m))
			m = append(append(append([]byte(nil), m[:p]...), randBytes(c.Rng, 1+c.Rng.Intn(6))...), m[p:]...)
		case 3:
			p := c.Rng.Intn(len(m))
			q := p + c.Rng.Intn(len(m)-p)
			m = append(append([]byte(nil), m[:p]...), m[q:]...)
		}
		tap := newMemConn()
		tap.feed(m)
		tap.setEOF()
		var conn *gws.Conn
		var err error
		var pan any
		ok := runWithTimeout(10*time.Second, func() {
			defer func() { pan = recover() }()
			br := bufio.NewReader(tap)
			r, perr := http.ReadRequest(br)
			if perr != nil {
				err = perr
				return
			}
			up := gws.NewUpgrader(&recHandler{}, &gws.ServerOption{PermessageDeflate: gws.PermessageDeflate{Enabled: i%2 == 0}, SubProtocols: []string{"b"}})
			conn, err = up.UpgradeFromConn(tap, br, r)
		})
		replay := map[string]any{"role": "server", "request": string(m)}
		switch {
		case !ok:
			c.oracleFail("server handshake hung on a mutated request", "handshake-hang", replay)
		case pan != nil:
			c.oracleFail(fmt.Sprintf("server handshake panicked: %v", pan), "handshake-panic", replay)
		case (conn == nil) == (err == nil):
			c.oracleFail("server handshake returned conn and error inconsistently", "handshake-result", replay)
		}
		c.count(fmt.Sprintf("hs-s%x", m), true, "kind=handshake-server", fmt.Sprintf("upgraded=%v", conn != nil))
	}
	for i := 0; i < n; i++ {
		tap := newMemConn()
		var conn *gws.Conn
		var err error
		var pan any
		mut := i
		ok := runWithTimeout(10*time.Second, func() {
			defer func() { pan = recover() }()
			conn, _, err = clientConn(&gws.ClientOption{HandshakeTimeout: 2 * time.Second, PermessageDeflate: gws.PermessageDeflate{Enabled: mut%2 == 0}}, &recHandler{}, tap, "permessage-deflate", func(req *http.Request) []byte {
				m := defaultResponse(req, "permessage-deflate; server_max_window_bits=10", "")
				switch mut % 4 {
				case 0:
					m = m[:c.Rng.Intn(len(m)+1)]
				case 1:
					m[c.Rng.Intn(len(m))] ^= byte(1 << uint(c.Rng.Intn(8)))
				case 2:
					p := c.Rng.Intn(len(m))
					m = append(append(append([]byte(nil), m[:p]...), randBytes(c.Rng, 1+c.Rng.Intn(6))...), m[p:]...)
				case 3:
					p := c.Rng.Intn(len(m))
					q := p + c.Rng.Intn(len(m)-p)
					m = append(append([]byte(nil), m[:p]...), m[q:]...)
				}
				tap.setEOF()
				return m
			})
		})
		replay := map[string]any{"role": "client", "mutation": mut}
		switch {
		case !ok:
			c.oracleFail("client handshake hung on a mutated response", "handshake-hang", replay)
		case pan != nil:
			c.oracleFail(fmt.Sprintf("client handshake panicked: %v", pan), "handshake-panic", replay)
		case (conn == nil) == (err == nil):
			c.oracleFail("client handshake returned conn and error inconsistently", "handshake-result", replay)
		}
		c.count(fmt.Sprintf("hs-c%d", i), true, "kind=handshake-client", fmt.Sprintf("connected=%v", conn != nil))
	}
	// a server that refuses the upgrade with a huge (or endless) body: the client reports the refusal without reading it
	for _, endless := range []bool{false, true} {
		tap := newMemConn()
		var conn *gws.Conn
		var err error
		var ms0, ms1 runtime.MemStats
		runtime.ReadMemStats(&ms0)
		t0 := time.Now()
		ok := runWithTimeout(10*time.Second, func() {
			conn, _, err = clientConn(&gws.ClientOption{HandshakeTimeout: 3 * time.Second}, &recHandler{}, tap, "", func(req *http.Request) []byte {
				head := "HTTP/1.1 403 Forbidden\r\nContent-Type: text/plain\r\nContent-Length: 67108864\r\n\r\n"
				if endless {
					head = "HTTP/1.1 403 Forbidden\r\nContent-Type: text/plain\r\n\r\n"
				}
				go func() {
					chunk := bytes.Repeat([]byte("no. "), 1<<16)
					for i := 0; i < 64; i++ { // 16 MiB, then silence with the transport left open
						tap.feed(chunk)
					}
				}()
				return []byte(head)
			})
		})
		runtime.ReadMemStats(&ms1)
		tag := fmt.Sprintf("refusal with a huge body endless=%v", endless)
		replay := map[string]any{"tag": tag, "elapsed_ms": time.Since(t0).Milliseconds(), "allocated": ms1.TotalAlloc - ms0.TotalAlloc, "err_len": len(fmt.Sprint(err))}
		switch {
		case !ok:
			c.oracleFail("client handshake hung on a refusal with a huge body ["+tag+"]", "handshake-hang", replay)
		case conn != nil || err == nil:
			c.oracleFail("client accepted a 403 ["+tag+"]", "handshake-result", replay)
		case ms1.TotalAlloc-ms0.TotalAlloc > 24<<20 || len(fmt.Sprint(err)) > 4096 || time.Since(t0) > 2500*time.Millisecond:
			c.oracleFail(fmt.Sprintf("refused upgrade: the client took %d ms, allocated %d bytes and returned an error text of %d bytes (the peer's body is unbounded) [%s]",
				time.Since(t0).Milliseconds(), ms1.TotalAlloc-ms0.TotalAlloc, len(fmt.Sprint(err)), tag), "over-allocation", replay)
		}
		_ = tap.Close()
		c.count(tag, true, "kind=handshake-client-refusal-body")
	}
	// hostile extension parameters, both roles: no panic, no hang, no allocation governed by the peer's numbers
	vals := []string{"-1", "0", "1", "7", "8", "15", "16", "17", "24", "30", "31", "32", "33", "62", "63", "64", "65", "255", "4294967296", "99999999999999999999", "abc", "", "15x", " 12"}
	params := []string{"server_max_window_bits", "client_max_window_bits"}
	hostileUp := gws.NewUpgrader(&recHandler{}, &gws.ServerOption{PermessageDeflate: gws.PermessageDeflate{Enabled: true, ServerContextTakeover: true, ClientContextTakeover: true, PoolSize: 1}})
	// shapes other than name=value: bare tokens, empty values, repeated '=', stray separators, repeats, unknown names
	shapes := []string{"permessage-deflate; %s", "permessage-deflate; %s=", "permessage-deflate; %s=12=13", "permessage-deflate;%s;", "permessage-deflate ; %s ; ",
		"permessage-deflate; %s; %s=10", "permessage-deflate; %s=10; %s", "permessage-deflate; =; %s", "permessage-deflate; %s=\"10\"", "%s", "%s=10", ";", "permessage-deflate;;;",
		"permessage-deflate; x-unknown; %s=9", "permessage-deflate, permessage-deflate; %s=9", "PERMESSAGE-DEFLATE; %s=9",
		// quoted-string values (RFC 7692 allows them) in degenerate forms: a lone quote, an empty pair, an unterminated one
		"permessage-deflate; %s=\"", "permessage-deflate; %s=\"\"", "permessage-deflate; %s=\"1", "permessage-deflate; x-unknown=\"; %s", "permessage-deflate; %s='"}
	names := append([]string{"client_no_context_takeover", "server_no_context_takeover"}, params...)
	var exts []string
	for _, sh := range shapes {
		for _, nm := range names {
			exts = append(exts, strings.ReplaceAll(sh, "%s", nm))
		}
	}
	for _, pn := range params {
		for _, v := range vals {
			exts = append(exts, "permessage-deflate; "+pn+"="+v, "permessage-deflate; server_max_window_bits="+v+"; client_max_window_bits="+v)
		}
	}
	for _, server := range []bool{true, false} {
		{
			{
				for _, ext := range exts {
					pd := gws.PermessageDeflate{Enabled: true, ServerContextTakeover: true, ClientContextTakeover: true}
					var conn *gws.Conn
					var err error
					_ = err
					var pan any
					var ms0, ms1 runtime.MemStats
					ok := true
					// the allocation counter is process-wide: a reading above the budget is repeated (an over-allocation caused by
					// the extension parameters repeats every time, what other goroutines of the harness allocate does not)
					for attempt := 0; attempt < 3; attempt++ {
						runtime.ReadMemStats(&ms0)
						ok = runWithTimeout(10*time.Second, func() {
							defer func() { pan = recover() }()
							tap := newMemConn()
							if server {
								conn, err = serverConnWith(hostileUp, tap, map[string][]string{"Sec-WebSocket-Extensions": {ext}})
							} else {
								conn, _, err = clientConn(&gws.ClientOption{HandshakeTimeout: 2 * time.Second, PermessageDeflate: pd}, &recHandler{}, tap, ext, nil)
							}
							if conn != nil { // use the connection once: windows and (de)compressors are sized from the negotiated values
								tap.feed(encodeFrame(frameSpec{Fin: true, Rsv1: true, Opcode: 1, Masked: server, Key: [4]byte{1, 2, 3, 4}, Payload: rfc7692Deflate([]byte("hello hello hello"), nil, 6), DeclLen: -1}))
								tap.setEOF()
								_ = conn.WriteMessage(gws.OpcodeText, bytes.Repeat([]byte("abc"), 400))
								conn.ReadLoop()
							}
						})
						runtime.ReadMemStats(&ms1)
						if !ok || pan != nil || ms1.TotalAlloc-ms0.TotalAlloc <= 8<<20 {
							break
						}
						time.Sleep(50 * time.Millisecond)
					}
					replay := map[string]any{"role": map[bool]string{true: "server", false: "client"}[server], "extensions": ext}
					tag := fmt.Sprintf("server=%v ext=%q", server, ext)
					switch {
					case !ok:
						c.oracleFail("handshake with hostile extension parameters hung ["+tag+"]", "handshake-hang", replay)
					case pan != nil:
						c.oracleFail(fmt.Sprintf("handshake with hostile extension parameters panicked: %v [%s]", pan, tag), "handshake-panic", replay)
					case ms1.TotalAlloc-ms0.TotalAlloc > 8<<20:
						c.oracleFail(fmt.Sprintf("%d bytes allocated for one handshake and two small messages [%s]", ms1.TotalAlloc-ms0.TotalAlloc, tag), "over-allocation", replay)
					}
					if conn != nil {
						npd := conn.VerifPD()
						if npd.Enabled && (npd.ServerMaxWindowBits < 8 || npd.ServerMaxWindowBits > 15 || npd.ClientMaxWindowBits < 8 || npd.ClientMaxWindowBits > 15) {
							c.oracleFail(fmt.Sprintf("negotiated window bits %d/%d outside 8..15 [%s]", npd.ServerMaxWindowBits, npd.ClientMaxWindowBits, tag), "window-bits-range", replay)
						}
					}
					c.count("hs-ext"+tag, true, "kind=handshake-extension-params", fmt.Sprintf("connected=%v", conn != nil))
				}
			}
		}
	}
	return nil
}
