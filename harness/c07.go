package main

import (
	"errors"
	"fmt"
	"net"
	"runtime"
	"sort"
	"strings"
	"sync"
	"sync/atomic"
	"time"

	"github.com/lxzan/gws"
)

func init() { runners["C07"] = runC07 }

// handler used by C07: records the lifecycle, measures handler overlap, can block, panic or close the connection.
type lifeHandler struct {
	recHandler
	running  int32
	maxRun   int32
	block    time.Duration
	panicAt  map[string]bool // payloads on which OnMessage panics
	closeAt  string          // payload on which OnMessage calls WriteClose
	afterEnd int32           // callbacks observed after OnClose
	closed   int32
}

func (h *lifeHandler) OnClose(s *gws.Conn, e error) {
	atomic.StoreInt32(&h.closed, 1)
	h.recHandler.OnClose(s, e)
}
func (h *lifeHandler) OnMessage(s *gws.Conn, m *gws.Message) {
	n := atomic.AddInt32(&h.running, 1)
	for {
		old := atomic.LoadInt32(&h.maxRun)
		if n <= old || atomic.CompareAndSwapInt32(&h.maxRun, old, n) {
			break
		}
	}
	defer atomic.AddInt32(&h.running, -1)
	p := string(m.Bytes())
	h.recHandler.OnMessage(s, m)
	if h.block > 0 {
		time.Sleep(h.block)
	}
	if h.closeAt != "" && p == h.closeAt {
		_ = s.WriteClose(1000, []byte("handler closes"))
	}
	if h.panicAt[p] {
		panic("handler panic on " + p)
	}
}

func runC07(c *Ctx) error {
	c.Sum.Rule = "read-loop sessions: both roles x {sequential, parallel with limit 1,2,3,8} x every way of ending (peer Close, protocol error, end of stream / transport error, local close from inside a handler, read limit) x handler behaviours (fast, slow, panicking with Recovery configured): OnOpen once and first, OnClose once with a non-nil error and last, sequential callbacks in wire order, parallel: each message exactly once and never more than the limit at a time; plus translator validation: the ordered log of callbacks and transport operations of sequential sessions must be a trace of the regenerated ReadLoop skeleton; non-trivial = all; distinct by scenario"
	iters := 160
	if !c.quick() {
		iters = 3000
	}
	endings := []string{"peerclose", "protoerr", "eof", "handlerclose", "toolarge", "truncated", "crossedclose", "hugelen"}
	for it := 0; it < iters; it++ {
		server := it%2 == 0
		parallel := it%3 != 0
		limit := []int{1, 2, 3, 8}[(it/3)%4]
		ending := endings[it%len(endings)]
		nmsg := 1 + c.Rng.Intn(20)
		withPanic := parallel && it%5 == 0 || (!parallel && it%7 == 0)
		h := &lifeHandler{panicAt: map[string]bool{}}
		seq := &seqLog{}
		h.seq = seq
		if parallel {
			h.block = time.Duration(c.Rng.Intn(400)) * time.Microsecond
		}
		recovered := int32(0)
		spec := connSpec{Server: server, Parallel: parallel, ParallelN: limit, RLimit: 5000, Utf8: true,
			Recovery: func(l gws.Logger) {
				if r := recover(); r != nil {
					atomic.AddInt32(&recovered, 1)
				}
			}}
		conn, tap, err := spec.open(h)
		if err != nil {
			return err
		}
		tap.seq = seq
		// the inbound stream
		var stream []byte
		var sent []string
		masked := server
		for i := 0; i < nmsg; i++ {
			p := fmt.Sprintf("msg-%d-%d", it, i)
			sent = append(sent, p)
			if withPanic && i%4 == 1 {
				h.panicAt[p] = true
			}
			if c.Rng.Intn(3) == 0 { // fragmented with a ping in between
				stream = append(stream, encodeFrame(frameSpec{Fin: false, Opcode: 1, Masked: masked, Key: [4]byte{1, 2, 3, 4}, Payload: []byte(p[:3]), DeclLen: -1})...)
				stream = append(stream, encodeFrame(frameSpec{Fin: true, Opcode: 9, Masked: masked, Key: [4]byte{1, 2, 3, 4}, Payload: []byte("pi"), DeclLen: -1})...)
				stream = append(stream, encodeFrame(frameSpec{Fin: true, Opcode: 0, Masked: masked, Key: [4]byte{1, 2, 3, 4}, Payload: []byte(p[3:]), DeclLen: -1})...)
			} else {
				stream = append(stream, dataFrame(1, true, masked, []byte(p))...)
			}
		}
		wantAll := true
		switch ending {
		case "peerclose":
			stream = append(stream, encodeFrame(frameSpec{Fin: true, Opcode: 8, Masked: masked, Key: [4]byte{5, 5, 5, 5}, Payload: []byte{0x03, 0xe9}, DeclLen: -1})...)
		case "protoerr":
			stream = append(stream, encodeFrame(frameSpec{Fin: true, Rsv2: true, Opcode: 2, Masked: masked, Key: [4]byte{5, 5, 5, 5}, Payload: []byte("x"), DeclLen: -1})...)
		case "toolarge":
			stream = append(stream, dataFrame(2, true, masked, make([]byte, 6000))...)
		case "hugelen": // a 64-bit length with the most significant bit set
			stream = append(stream, encodeFrame(frameSpec{Fin: true, Opcode: 2, Masked: masked, Key: [4]byte{5, 5, 5, 5}, Payload: []byte("x"), UseU64: true, DeclU64: 1<<64 - 1, DeclLen: -1})...)
		case "truncated":
			stream = append(stream, dataFrame(2, true, masked, make([]byte, 100))[:50]...)
		case "handlerclose":
			h.closeAt = sent[len(sent)/2]
			wantAll = false
		case "crossedclose":
			// the handler answers the last message with a local close while the peer's Close frame is already buffered
			h.closeAt = sent[len(sent)-1]
			stream = append(stream, encodeFrame(frameSpec{Fin: true, Opcode: 8, Masked: masked, Key: [4]byte{5, 5, 5, 5}, Payload: []byte{0x03, 0xe8}, DeclLen: -1})...)
		}
		stream = append(stream, dataFrame(2, true, masked, []byte("never delivered"))...)
		if ending == "eof" || ending == "truncated" || ending == "handlerclose" || ending == "crossedclose" {
			stream = stream[:len(stream)-len(dataFrame(2, true, masked, []byte("never delivered")))]
		}
		tap.feed(cutChunks(c, stream, it%3)...)
		tap.setEOF()
		done := runWithTimeout(20*time.Second, conn.ReadLoop)
		// parallel handlers may still be running after ReadLoop returned: wait for them
		// (a spawned handler may not even have started yet: wait until every expected delivery happened, up to 3 s)
		countMsgs := func() int {
			n := 0
			for _, e := range h.events() {
				if e.Kind == "msg" {
					n++
				}
			}
			return n
		}
		expect := nmsg
		if !wantAll {
			expect = 0
		}
		for i := 0; i < 3000 && (atomic.LoadInt32(&h.running) > 0 || countMsgs() < expect); i++ {
			time.Sleep(time.Millisecond)
		}
		evs := h.events()
		tag := fmt.Sprintf("it=%d server=%v parallel=%v limit=%d ending=%s msgs=%d panic=%v", it, server, parallel, limit, ending, nmsg, withPanic)
		replay := map[string]any{"tag": tag, "stream_hex": fmt.Sprintf("%x", head(stream, 300)), "events": fmt.Sprint(len(evs))}
		if !done {
			c.oracleFail("ReadLoop did not return ["+tag+"]", "readloop-hang", replay)
			continue
		}
		opens, closes := 0, 0
		var closeErr error
		firstIdx, closeIdx := -1, -1
		var got []string
		for i, e := range evs {
			switch e.Kind {
			case "open":
				opens++
				if firstIdx < 0 {
					firstIdx = i
				}
			case "close":
				closes++
				closeIdx = i
				closeErr = e.Err
			case "msg":
				got = append(got, string(e.Payload))
			}
		}
		switch {
		case opens != 1 || firstIdx != 0:
			c.oracleFail(fmt.Sprintf("OnOpen called %d times, first callback index %d [%s]", opens, firstIdx, tag), "open-not-first-once", replay)
		case closes != 1:
			c.oracleFail(fmt.Sprintf("OnClose called %d times [%s]", closes, tag), "close-not-once", replay)
		case closeErr == nil:
			c.oracleFail("OnClose received a nil error ["+tag+"]", "close-nil-error", replay)
		case !parallel && closeIdx != len(evs)-1:
			c.oracleFail("a callback ran after OnClose with sequential handling ["+tag+"]", "callback-after-close", replay)
		}
		if closed, _ := tap.isClosed(); !closed {
			c.oracleFail("transport not closed after the read loop ended ["+tag+"]", "transport-open", replay)
		}
		// each message exactly once; sequential: in wire order
		want := sent
		if !wantAll {
			// the handler closed the connection while handling sent[len/2]: later messages may or may not be read
			want = nil
		}
		cnt := map[string]int{}
		for _, g := range got {
			cnt[g]++
		}
		for g, n := range cnt {
			if n != 1 {
				c.oracleFail(fmt.Sprintf("message %q delivered %d times [%s]", g, n, tag), "message-duplicated", replay)
			}
		}
		if want != nil {
			if len(got) != len(want) {
				c.oracleFail(fmt.Sprintf("%d messages delivered, %d were sent before the connection ended [%s]", len(got), len(want), tag), "message-lost", replay)
			} else if !parallel {
				for i := range want {
					if got[i] != want[i] {
						c.oracleFail(fmt.Sprintf("sequential handling delivered %q at position %d, wire order has %q [%s]", got[i], i, want[i], tag), "order-differs", replay)
						break
					}
				}
			} else {
				a, b := append([]string(nil), got...), append([]string(nil), want...)
				sort.Strings(a)
				sort.Strings(b)
				for i := range a {
					if a[i] != b[i] {
						c.oracleFail("parallel handling: delivered set differs from the sent set ["+tag+"]", "message-lost", replay)
						break
					}
				}
			}
		}
		if parallel && int(atomic.LoadInt32(&h.maxRun)) > limit {
			c.oracleFail(fmt.Sprintf("%d handlers ran concurrently, limit %d [%s]", h.maxRun, limit, tag), "parallel-limit", replay)
		}
		if !parallel && atomic.LoadInt32(&h.maxRun) > 1 {
			c.oracleFail("two message handlers overlapped with sequential handling ["+tag+"]", "sequential-overlap", replay)
		}
		if withPanic {
			np := 0
			for _, g := range got {
				if h.panicAt[g] {
					np++
				}
			}
			if int(atomic.LoadInt32(&recovered)) != np {
				c.oracleFail(fmt.Sprintf("%d handler panics, recovery function absorbed %d [%s]", np, recovered, tag), "panic-not-recovered", replay)
			}
		}
		// translator validation for sequential sessions in which the handler does nothing but record
		if !parallel && ending != "handlerclose" && ending != "crossedclose" {
			obs := VL{}
			for _, code := range seq.snapshot() {
				obs = append(obs, VN(code))
			}
			c.addCase("SKEL", VL{VB([]byte("Conn_ReadLoop_" + roleName(server))), obs}, tag)
		}
		c.count(tag, true, "ending="+ending, fmt.Sprintf("parallel=%v", parallel))
	}
	// ---- endings that start on the WRITE side while the reader is parked in a healthy, silent transport
	wendings := []string{"writeclose", "write-fault", "write-dead", "deadline-fault", "netconn-close", "rejected-call-dead-link", "broadcast-write-fault"}
	for it := 0; it < 4*len(wendings); it++ {
		server := it%2 == 0
		ending := wendings[it%len(wendings)]
		pmd := (it/len(wendings))%2 == 1
		h := &lifeHandler{panicAt: map[string]bool{}}
		h.seq = &seqLog{}
		spec := connSpec{Server: server, PMD: pmd, RLimit: 5000, WLimit: 1000}
		conn, tap, err := spec.open(h)
		if err != nil {
			return err
		}
		tap.feed(dataFrame(1, true, server, []byte("one message, then silence")))
		rl := make(chan struct{})
		go func() { defer close(rl); conn.ReadLoop() }()
		for i := 0; i < 2000 && len(h.events()) < 2; i++ {
			time.Sleep(time.Millisecond)
		}
		var werr error
		switch ending {
		case "writeclose":
			werr = conn.WriteClose(1000, []byte("bye"))
		case "write-fault": // the data write fails, the Close frame behind it goes through
			tap.mu.Lock()
			tap.failWrite = tap.nWrite
			tap.mu.Unlock()
			werr = conn.WriteMessage(gws.OpcodeText, []byte("lost"))
		case "write-dead": // the link is broken for writing: the Close frame cannot be written either
			tap.mu.Lock()
			tap.writeDeadFrom = tap.nWrite
			tap.mu.Unlock()
			werr = conn.WriteMessage(gws.OpcodeText, []byte("lost"))
		case "deadline-fault":
			tap.mu.Lock()
			tap.failDead = tap.nDead
			tap.mu.Unlock()
			werr = conn.SetDeadline(time.Now().Add(time.Hour))
		case "netconn-close":
			werr = conn.NetConn().Close()
		case "broadcast-write-fault": // the failing write is the one of an asynchronous broadcast job
			tap.mu.Lock()
			tap.failWrite = tap.nWrite
			tap.mu.Unlock()
			b := gws.NewBroadcaster(gws.OpcodeText, []byte("broadcast into a failing transport"))
			werr = b.Broadcast(conn)
			defer b.Close()
		case "rejected-call-dead-link":
			// a call rejected for its size starts the teardown with one kind of error; the Close frame then fails on a
			// broken link with an error of another concrete type
			tap.mu.Lock()
			tap.writeDeadFrom, tap.writeErr = tap.nWrite, &net.OpError{Op: "write", Net: "tcp", Err: errors.New("broken pipe")}
			tap.mu.Unlock()
			func() {
				defer func() {
					if r := recover(); r != nil {
						werr = fmt.Errorf("PANIC: %v", r)
					}
				}()
				werr = conn.WriteMessage(gws.OpcodeBinary, make([]byte, 2000))
			}()
		}
		returned := false
		select {
		case <-rl:
			returned = true
		case <-time.After(5 * time.Second):
		}
		tag := fmt.Sprintf("write-side ending=%s server=%v pmd=%v", ending, server, pmd)
		replay := map[string]any{"tag": tag, "call_error": fmt.Sprint(werr)}
		opens, closes := 0, 0
		var closeErr error
		for _, e := range h.events() {
			switch e.Kind {
			case "open":
				opens++
			case "close":
				closes++
				closeErr = e.Err
			}
		}
		closed, _ := tap.isClosed()
		switch {
		case werr != nil && strings.HasPrefix(werr.Error(), "PANIC: "):
			c.oracleFail(fmt.Sprintf("the write call panicked: %v [%s]", werr, tag), "write-panic", replay)
			_ = tap.Close()
			select {
			case <-rl:
			case <-time.After(2 * time.Second): // a deadlocked teardown: do not wait for it
			}
		case !returned:
			c.oracleFail(fmt.Sprintf("the connection was ended from the write side but ReadLoop did not return within 5 s (OnClose ran %d times, transport closed=%v) [%s]", closes, closed, tag), "readloop-hang", replay)
			_ = tap.Close()
			select {
			case <-rl:
			case <-time.After(2 * time.Second): // a deadlocked teardown: do not wait for it
			}
		case opens != 1 || closes != 1:
			c.oracleFail(fmt.Sprintf("OnOpen x%d, OnClose x%d [%s]", opens, closes, tag), "close-not-once", replay)
		case closeErr == nil:
			c.oracleFail("OnClose received a nil error ["+tag+"]", "close-nil-error", replay)
		case !closed:
			c.oracleFail("transport not closed after the read loop ended ["+tag+"]", "transport-open", replay)
		}
		c.count(tag, true, "ending="+ending, "parallel=false")
	}
	// ---- parallel handling: a handler that is still running when the connection ends and only returns once OnClose has
	// run (the per-connection done-channel pattern): OnClose must not wait for it
	for _, server := range []bool{true, false} {
		for _, ending := range []string{"peerclose", "eof", "protoerr"} {
			done := make(chan struct{})
			var once sync.Once
			h := &recHandler{}
			started := make(chan struct{}, 4)
			h.onMsg = func(*gws.Conn, gws.Opcode, []byte) {
				started <- struct{}{}
				select {
				case <-done:
				case <-time.After(8 * time.Second):
				}
			}
			wrap := &closeNotify{recHandler: h, fn: func() { once.Do(func() { close(done) }) }}
			spec := connSpec{Server: server, Parallel: true, ParallelN: 2}
			conn, tap, err := spec.open(wrap)
			if err != nil {
				return err
			}
			stream := dataFrame(1, true, server, []byte("handled until the connection closes"))
			switch ending {
			case "peerclose":
				stream = append(stream, dataFrame(8, true, server, []byte{0x03, 0xe8})...)
			case "protoerr":
				stream = append(stream, encodeFrame(frameSpec{Fin: true, Rsv2: true, Opcode: 2, Masked: server, Payload: []byte("x"), DeclLen: -1})...)
			}
			tap.feed(stream)
			tap.setEOF()
			rl := make(chan struct{})
			go func() { defer close(rl); conn.ReadLoop() }()
			returned := false
			select {
			case <-rl:
				returned = true
			case <-time.After(4 * time.Second):
			}
			closes := 0
			for _, e := range h.events() {
				if e.Kind == "close" {
					closes++
				}
			}
			tag := fmt.Sprintf("handler waits for OnClose role=%s ending=%s", roleName(server), ending)
			if !returned || closes != 1 {
				c.oracleFail(fmt.Sprintf("parallel handling with a handler that returns only after OnClose: ReadLoop returned=%v within 4 s, OnClose ran %d times [%s]", returned, closes, tag),
					"onclose-waits-for-handlers-hang", map[string]any{"tag": tag})
			}
			once.Do(func() { close(done) })
			<-rl
			c.count(tag, true, "ending="+ending, "parallel=true")
		}
	}
	// ---- parallel handling applies back-pressure: while ParallelGolimit handlers are busy the reader stops taking
	// messages off the transport (it does not park an unbounded number of messages / goroutines)
	for _, server := range []bool{true, false} {
		for _, limit := range []int{1, 2, 4} {
			release := make(chan struct{})
			h := &recHandler{}
			h.onMsg = func(*gws.Conn, gws.Opcode, []byte) { <-release }
			spec := connSpec{Server: server, Parallel: true, ParallelN: limit, RLimit: 8000}
			conn, tap, err := spec.open(h)
			if err != nil {
				return err
			}
			const nmsg, size = 60, 3000
			total := 0
			for i := 0; i < nmsg; i++ {
				fr := dataFrame(2, true, server, make([]byte, size))
				total += len(fr)
				tap.feed(fr)
			}
			base := runtime.NumGoroutine()
			rl := make(chan struct{})
			go func() { defer close(rl); conn.ReadLoop() }()
			time.Sleep(300 * time.Millisecond)
			tap.mu.Lock()
			left := 0
			for _, ch := range tap.chunks {
				left += len(ch)
			}
			tap.mu.Unlock()
			taken := total - left
			extra := runtime.NumGoroutine() - base
			tag := fmt.Sprintf("back-pressure role=%s limit=%d", roleName(server), limit)
			// limit messages in handlers, one more parked in the reader, plus what the 4 KiB buffered reader has read ahead
			if bound := (limit+2)*(size+14) + 2*4096; taken > bound || extra > limit+3 {
				c.oracleFail(fmt.Sprintf("with %d busy handlers the reader took %d of %d bytes off the transport (bound %d) and %d goroutines were started (bound %d) [%s]", limit, taken, total, bound, extra, limit+3, tag),
					"parallel-no-backpressure", map[string]any{"tag": tag, "bytes_taken": taken, "goroutines": extra})
			}
			close(release)
			tap.setEOF()
			select {
			case <-rl:
			case <-time.After(10 * time.Second):
				c.oracleFail("ReadLoop did not return after the handlers were released ["+tag+"]", "readloop-hang", map[string]any{"tag": tag})
			}
			c.count(tag, true, "ending=eof", "parallel=true")
		}
	}
	// a local close racing with a transport error: goroutine A is inside WriteClose (between taking the connection's
	// closed flag and recording why - the window is widened by a very long reason, which is legal: it is cut to 123 bytes
	// on the wire) while the read loop meets the end of the stream.  Whoever wins, OnClose gets a non-nil error, once.
	{
		attempts, reasonLen := 6, 48<<20
		if !c.quick() {
			attempts = 40
		}
		reason := make([]byte, reasonLen)
		for i := range reason {
			reason[i] = 'r'
		}
		for a := 0; a < attempts; a++ {
			server := a%2 == 0
			h := &recHandler{}
			conn, tap, err := connSpec{Server: server}.open(h)
			if err != nil {
				return err
			}
			tag := fmt.Sprintf("local close racing a transport error role=%s attempt=%d", roleName(server), a)
			rl := make(chan struct{})
			go func() { conn.ReadLoop(); close(rl) }()
			wc := make(chan struct{})
			go func() { _ = conn.WriteClose(1000, reason); close(wc) }()
			time.Sleep(time.Duration(500+700*(a/2)) * time.Microsecond)
			tap.setEOF()
			select {
			case <-rl:
			case <-time.After(10 * time.Second):
				c.oracleFail("ReadLoop did not return ["+tag+"]", "readloop-hang", map[string]any{"tag": tag})
			}
			<-wc
			var closes []evRec
			for _, e := range h.events() {
				if e.Kind == "close" {
					closes = append(closes, e)
				}
			}
			switch {
			case len(closes) != 1:
				c.oracleFail(fmt.Sprintf("OnClose delivered %d times [%s]", len(closes), tag), "close-count", map[string]any{"tag": tag})
			case closes[0].Err == nil:
				c.oracleFail("OnClose received a nil error ["+tag+"]", "close-nil-error", map[string]any{"tag": tag})
			}
			c.count(tag, true, "ending=close-race")
		}
	}
	// an OnClose handler that uses the connection: writes from inside it return (with the closed error) and the read loop
	// returns - the library holds none of its locks while it runs the callback
	for _, server := range []bool{true, false} {
		var conn *gws.Conn
		inner := &recHandler{}
		var writeResults []int
		h := &closeNotify{recHandler: inner, fn: func() {
			for _, api := range []string{"message", "string", "writev", "ping", "file", "async"} {
				op := sendOp{API: api, Opcode: 2, Slices: [][]byte{[]byte("from OnClose")}}
				if api == "file" {
					op.Reader = newChunkReader([][]byte{[]byte("from OnClose")}, "sep")
				}
				if api == "string" {
					op.Opcode = 1
				}
				if api == "ping" {
					op.Opcode = 9
				}
				writeResults = append(writeResults, rawSend(conn, op))
			}
		}}
		var tap *memConn
		var err error
		conn, tap, err = connSpec{Server: server}.open(h)
		if err != nil {
			return err
		}
		tap.feed(dataFrame(1, true, server, []byte("hello")), dataFrame(8, true, server, []byte{0x03, 0xe8}))
		tap.setEOF()
		tag := fmt.Sprintf("writes from inside OnClose role=%s", roleName(server))
		if !runWithTimeout(10*time.Second, conn.ReadLoop) {
			c.oracleFail("a write call made from inside OnClose never returned: the read loop is stuck in its close callback ["+tag+"]", "readloop-hang", map[string]any{"tag": tag, "results": writeResults})
		} else {
			for i, r := range writeResults {
				if r != 1 {
					c.oracleFail(fmt.Sprintf("write call #%d made from inside OnClose returned %d, want the closed-connection error [%s]", i, r, tag), "write-after-close", map[string]any{"tag": tag, "results": writeResults})
					break
				}
			}
		}
		c.count(tag, true, "ending=write-inside-onclose")
	}
	// a connection that is already closed when its read loop starts (the application wrote a greeting that failed, or
	// closed it, between the upgrade and ReadLoop): the lifecycle is still OnOpen once and first, then OnClose once
	for _, server := range []bool{true, false} {
		for _, how := range []string{"WriteClose", "NetConn().Close() + failed write"} {
			h := &recHandler{}
			conn, tap, err := connSpec{Server: server}.open(h)
			if err != nil {
				return err
			}
			if how == "WriteClose" {
				_ = conn.WriteClose(1000, nil)
			} else {
				_ = conn.NetConn().Close()
				_ = conn.WriteMessage(gws.OpcodeText, []byte("greeting"))
			}
			tap.setEOF()
			tag := fmt.Sprintf("closed before ReadLoop role=%s by=%s", roleName(server), how)
			if !runWithTimeout(10*time.Second, conn.ReadLoop) {
				c.oracleFail("ReadLoop did not return ["+tag+"]", "readloop-hang", map[string]any{"tag": tag})
				continue
			}
			var kinds []string
			var cerr error
			for _, e := range h.events() {
				kinds = append(kinds, e.Kind)
				if e.Kind == "close" {
					cerr = e.Err
				}
			}
			if len(kinds) != 2 || kinds[0] != "open" || kinds[1] != "close" {
				c.oracleFail(fmt.Sprintf("callbacks %v, want [open close] [%s]", kinds, tag), "lifecycle-order", map[string]any{"tag": tag, "callbacks": kinds})
			} else if cerr == nil {
				c.oracleFail("OnClose received a nil error ["+tag+"]", "close-nil-error", map[string]any{"tag": tag})
			}
			c.count(tag, true, "ending=closed-before-readloop")
		}
	}
	// goroutines started by parallel handling must all have finished
	var wg sync.WaitGroup
	wg.Wait()
	return nil
}

// closeNotify runs fn when OnClose is delivered (after recording it)
type closeNotify struct {
	*recHandler
	fn func()
}

func (h *closeNotify) OnClose(s *gws.Conn, e error) {
	h.recHandler.OnClose(s, e)
	h.fn()
}
