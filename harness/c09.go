package main

import (
	"bufio"
	"bytes"
	"errors"
	"fmt"
	"net"
	"net/http"
	"os"
	"runtime"
	"sync"
	"sync/atomic"
	"time"

	"github.com/lxzan/gws"
)

func init() { runners["C09"] = runC09 }

func settleGoroutines(base int) int {
	n := runtime.NumGoroutine()
	for i := 0; i < 400 && n > base; i++ {
		time.Sleep(10 * time.Millisecond)
		n = runtime.NumGoroutine()
	}
	return n
}

// one scripted session on an established connection with a fault plan; returns a description of what went wrong or ""
func c09Session(c *Ctx, server bool, pmd bool, fault string, k int, tag string) (string, string, map[string]any) {
	h := &recHandler{}
	h.onPing = func(s *gws.Conn, p []byte) { _ = s.WritePong(p) }
	h.onMsg = func(s *gws.Conn, op gws.Opcode, p []byte) { _ = s.WriteMessage(op, p) } // echo
	spec := connSpec{Server: server, PMD: pmd, SrvTO: pmd, CliTO: pmd, SrvBits: 10, CliBits: 10, Utf8: true}
	base := runtime.NumGoroutine()
	conn, tap, err := spec.open(h)
	if err != nil {
		return "harness: " + err.Error(), "harness", nil
	}
	tap.mu.Lock()
	switch fault {
	case "write-error":
		tap.failWrite = tap.nWrite + k
	case "short-write":
		tap.shortWrite = tap.nWrite + k
	case "read-error":
		tap.failRead = tap.nRead + k
	case "deadline-error":
		tap.failDead = tap.nDead + k
	case "dead-link":
		// a broken link: every write from the k-th on fails, with the error type a real socket returns
		tap.writeDeadFrom, tap.writeErr = tap.nWrite+k, &net.OpError{Op: "write", Net: "tcp", Err: errors.New("broken pipe")}
	}
	tap.mu.Unlock()
	masked := server
	var stream []byte
	stream = append(stream, dataFrame(1, true, masked, []byte("first"))...)
	stream = append(stream, encodeFrame(frameSpec{Fin: true, Opcode: 9, Masked: masked, Key: [4]byte{1, 2, 3, 4}, Payload: []byte("ping"), DeclLen: -1})...)
	stream = append(stream, dataFrame(2, false, masked, []byte("frag"))...)
	stream = append(stream, encodeFrame(frameSpec{Fin: true, Opcode: 0, Masked: masked, Key: [4]byte{1, 2, 3, 4}, Payload: []byte("ment"), DeclLen: -1})...)
	if fault == "disconnect" {
		if k < len(stream) {
			stream = stream[:k]
		}
	} else {
		stream = append(stream, encodeFrame(frameSpec{Fin: true, Opcode: 8, Masked: masked, Key: [4]byte{1, 2, 3, 4}, Payload: []byte{0x03, 0xe8}, DeclLen: -1})...)
	}
	var pan any
	results := []int{}
	ok := runWithTimeout(15*time.Second, func() {
		defer func() { pan = recover() }()
		if fault == "dead-link" {
			// the first failing call is one the library refuses for its CONTENT (text that is not UTF-8): the teardown it starts
			// then meets the broken link when it writes the Close frame - two errors of different kinds on one connection
			results = append(results, rawSend(conn, sendOp{API: "message", Opcode: 1, Slices: [][]byte{{'b', 'a', 'd', 0xff}}}))
		}
		r0 := rawSend(conn, sendOp{API: "broadcast", Opcode: 2, Slices: [][]byte{[]byte("to every subscriber")}})
		results = append(results, r0)
		r1 := rawSend(conn, sendOp{API: "message", Opcode: 1, Slices: [][]byte{[]byte("hello")}})
		r2 := rawSend(conn, sendOp{API: "file", Opcode: 2, Reader: newChunkReader([][]byte{make([]byte, 131072), make([]byte, 131072), []byte("end")}, "sep")})
		r3 := rawSend(conn, sendOp{API: "async", Opcode: 2, Slices: [][]byte{[]byte("async")}})
		r4 := rawSend(conn, sendOp{API: "writev", Opcode: 2, Slices: [][]byte{[]byte("one slice through the vectored call")}})
		r5 := rawSend(conn, sendOp{API: "writevasync", Opcode: 1, Slices: [][]byte{[]byte("vectored, "), []byte("asynchronous")}})
		results = append(results, r1, r2, r3, r4, r5) // in the order of the calls
		_ = conn.SetDeadline(time.Time{})
		tap.feed(cutChunks(c, stream, 2)...)
		tap.setEOF()
		conn.ReadLoop()
		_ = conn.WriteClose(1000, nil)
	})
	replay := map[string]any{"tag": tag, "results": results}
	if !ok {
		return "session did not finish within 15 s", "fault-hang", replay
	}
	if pan != nil {
		return fmt.Sprintf("panic: %v", pan), "fault-panic", replay
	}
	for i, r := range results {
		if r == 9 {
			return fmt.Sprintf("write call #%d of the session panicked", i), "fault-panic", replay
		}
	}
	// a write call that failed ended the connection: every later call is rejected (100 = a queued broadcast, no result)
	for i, r := range results {
		if r != 0 && r != 100 {
			for j := i + 1; j < len(results); j++ {
				if results[j] != 1 && results[j] != 100 {
					return fmt.Sprintf("write call #%d failed (result %d) and call #%d after it returned %d instead of the closed-connection error: the fault did not end the connection (results %v)", i, r, j, results[j], results), "fault-no-teardown", replay
				}
			}
			break
		}
	}
	opens, closes := 0, 0
	var cerr error
	for _, e := range h.events() {
		if e.Kind == "open" {
			opens++
		}
		if e.Kind == "close" {
			closes++
			cerr = e.Err
		}
	}
	if opens != 1 || closes != 1 || cerr == nil {
		return fmt.Sprintf("OnOpen x%d, OnClose x%d, error %v", opens, closes, cerr), "fault-lifecycle", replay
	}
	if closed, n := tap.isClosed(); !closed || n != 1 {
		return fmt.Sprintf("transport closed=%v, Close called %d times", closed, n), "fault-transport-close", replay
	}
	before := tap.numWrites()
	for _, api := range []string{"message", "writev", "file", "ping", "broadcast"} {
		op := sendOp{API: api, Opcode: 2, Slices: [][]byte{[]byte("late")}}
		if api == "broadcast" { // large enough to be compressed: the frame is built before the connection is looked at
			op.Slices = [][]byte{bytes.Repeat([]byte("late broadcast "), 100)}
		}
		if api == "file" {
			op.Reader = newChunkReader([][]byte{[]byte("late")}, "sep")
		}
		r := -1
		if !runWithTimeout(5*time.Second, func() { r = rawSend(conn, op) }) {
			return fmt.Sprintf("%s after teardown did not return within 5 s (a writer left behind)", api), "fault-late-write-hang", replay
		}
		if r != 1 && !(api == "broadcast" && (r == 0 || r == 100)) { // Broadcast only queues: its result is not the write's
			return fmt.Sprintf("%s after teardown returned %d", api, r), "fault-late-write", replay
		}
	}
	if tap.numWrites() != before {
		return "a write after teardown reached the transport", "fault-late-write", replay
	}
	// frames after the Close frame?
	if fs, _, perr := parseFrames(tap.written()); perr == nil {
		seenClose := false
		for _, f := range fs {
			if seenClose {
				return "a frame was written after the Close frame", "frame-after-close", replay
			}
			if f.Opcode == 8 {
				seenClose = true
			}
		}
	}
	if n := settleGoroutines(base); n > base {
		return fmt.Sprintf("%d goroutine(s) left behind", n-base), "goroutine-leak", replay
	}
	return "", "", nil
}

func runC09(c *Ctx) error {
	c.Sum.Rule = "scripted sessions (buffered write, streamed 3-segment write, async write, deadline call, read loop over text / ping / fragments / close with an echoing handler, local close) on both roles with and without compression, with ONE fault injected at every index k of every transport operation kind {write error, short write, read error, deadline error, disconnect after k inbound bytes, a link dead for writes from the k-th on (net.OpError) met first by the Close frame of a content-rejected call}: no panic, finishes, OnClose exactly once with an error, transport closed exactly once, later writes rejected without touching the wire, nothing after the Close frame, goroutine count back to baseline; handshakes in both roles with a fault at every write/read index: error returned, no connection, transport closed; D10 replayed as a known finding; non-trivial = all; distinct by (role, fault, k)"
	for _, server := range []bool{true, false} {
		for _, pmd := range []bool{false, true} {
			for _, fault := range []string{"none", "write-error", "short-write", "read-error", "deadline-error", "disconnect", "dead-link"} {
				if c.quick() && pmd && !server && fault != "write-error" && fault != "short-write" && fault != "dead-link" {
					continue // quick tier: a compressing client only under write faults (its compressor is shared with Broadcast and locked separately)
				}
				maxK := map[string]int{"none": 1, "write-error": 12, "short-write": 12, "read-error": 14, "deadline-error": 2, "disconnect": 60, "dead-link": 3}[fault]
				step := 1
				if fault == "disconnect" && c.quick() {
					step = 3
				}
				reps := 1
				if !c.quick() {
					reps = 4 // the inbound stream is re-chunked at random on every repetition
					if fault == "disconnect" {
						maxK = 80
					}
				}
				for rep := 0; rep < reps; rep++ {
					for k := 0; k < maxK; k += step {
						tag := fmt.Sprintf("session server=%v pmd=%v fault=%s k=%d", server, pmd, fault, k)
						what, sig, replay := c09Session(c, server, pmd, fault, k, tag)
						if what != "" {
							c.oracleFail(what+" ["+tag+"]", sig, replay)
						}
						c.count(fmt.Sprintf("%s rep=%d", tag, rep), true, "fault="+fault, "role="+roleName(server))
					}
				}
			}
		}
	}
	// handshake faults
	for _, server := range []bool{true, false} {
		for _, fault := range []string{"write-error", "read-error", "deadline-error", "short-write"} {
			for k := 0; k < 4; k++ {
				tap := newMemConn()
				switch fault {
				case "write-error":
					tap.failWrite = k
				case "short-write":
					tap.shortWrite = k
				case "read-error":
					tap.failRead = k
				case "deadline-error":
					tap.failDead = k
				}
				base := runtime.NumGoroutine()
				var conn *gws.Conn
				var err error
				var pan any
				ok := runWithTimeout(10*time.Second, func() {
					defer func() { pan = recover() }()
					if server {
						conn, err = serverConn(&gws.ServerOption{HandshakeTimeout: time.Second}, &recHandler{}, tap, nil)
					} else {
						conn, _, err = clientConn(&gws.ClientOption{HandshakeTimeout: time.Second}, &recHandler{}, tap, "", nil)
					}
				})
				tag := fmt.Sprintf("handshake server=%v fault=%s k=%d", server, fault, k)
				replay := map[string]any{"tag": tag, "err": fmt.Sprint(err)}
				closed, _ := tap.isClosed()
				switch {
				case !ok:
					c.oracleFail("handshake did not return ["+tag+"]", "handshake-hang", replay)
				case pan != nil:
					c.oracleFail(fmt.Sprintf("handshake panicked: %v [%s]", pan, tag), "handshake-panic", replay)
				case err != nil && ((server && conn != nil) || !closed):
					// (client: handshake() returns the socket together with the error of the final SetDeadline; NewClientFromConn
					// then closes the transport - an error is returned and the transport is closed, which is what C09/C11 demand)
					c.oracleFail(fmt.Sprintf("handshake failed (%v) but conn=%v transport closed=%v [%s]", err, conn != nil, closed, tag), "handshake-error-path", replay)
				case err == nil && conn == nil:
					c.oracleFail("handshake returned neither connection nor error ["+tag+"]", "handshake-error-path", replay)
				}
				if n := settleGoroutines(base); n > base {
					c.oracleFail(fmt.Sprintf("%d goroutine(s) left behind by a failed handshake [%s]", n-base, tag), "goroutine-leak", replay)
				}
				c.count(tag, true, "fault=handshake-"+fault, "role="+roleName(server))
			}
		}
	}
	// a server that never answers: the client must give up within the handshake timeout and close the transport
	{
		tap := newMemConn()
		base := runtime.NumGoroutine()
		t0 := time.Now()
		var err error
		var conn *gws.Conn
		ok := runWithTimeout(5*time.Second, func() {
			conn, _, err = gws.NewClientFromConn(&recHandler{}, &gws.ClientOption{Addr: "ws://mem.test/", HandshakeTimeout: 150 * time.Millisecond}, tap)
		})
		closed, _ := tap.isClosed()
		replay := map[string]any{"elapsed_ms": time.Since(t0).Milliseconds(), "err": fmt.Sprint(err)}
		switch {
		case !ok:
			c.oracleFail("client handshake against a silent server did not return within 5 s (timeout 150 ms)", "handshake-timeout", replay)
		case err == nil || conn != nil || !closed:
			c.oracleFail(fmt.Sprintf("silent server: err=%v conn=%v transport closed=%v", err, conn != nil, closed), "handshake-error-path", replay)
		}
		if n := settleGoroutines(base); n > base {
			c.oracleFail(fmt.Sprintf("%d goroutine(s) left behind after a timed-out handshake", n-base), "goroutine-leak", replay)
		}
		c.count("silent-server", true, "fault=handshake-timeout")
	}
	// a server that accepts the connection but stops reading (the request write stalls) on a transport whose deadlines
	// are ineffective (tunnelled / wrapped connections): the handshake timeout must still end it, transport closed,
	// nothing left behind
	for _, ignoreDeadline := range []bool{true, false} {
		tap := &stallConn{memConn: newMemConn(), ignoreDeadline: ignoreDeadline, released: make(chan struct{})}
		base := runtime.NumGoroutine()
		t0 := time.Now()
		var err error
		var conn *gws.Conn
		ok := runWithTimeout(5*time.Second, func() {
			conn, _, err = gws.NewClientFromConn(&recHandler{}, &gws.ClientOption{Addr: "ws://mem.test/", HandshakeTimeout: 150 * time.Millisecond}, tap)
		})
		closed, _ := tap.isClosed()
		tag := fmt.Sprintf("client handshake, request write stalls, deadlines ignored=%v", ignoreDeadline)
		replay := map[string]any{"tag": tag, "elapsed_ms": time.Since(t0).Milliseconds(), "err": fmt.Sprint(err)}
		switch {
		case !ok:
			c.oracleFail("did not return within 5 s (timeout 150 ms) ["+tag+"]", "handshake-timeout", replay)
			_ = tap.Close()
		case err == nil || conn != nil || !closed:
			c.oracleFail(fmt.Sprintf("err=%v conn=%v transport closed=%v [%s]", err, conn != nil, closed, tag), "handshake-error-path", replay)
		}
		if n := settleGoroutines(base); n > base {
			c.oracleFail(fmt.Sprintf("%d goroutine(s) left behind after a handshake whose request write stalled [%s]", n-base, tag), "goroutine-leak", replay)
		}
		c.count(tag, true, "fault=handshake-write-stall")
	}
	// the same on the server side: the client sent a valid request and then stops reading, so the write of the response
	// stalls; the transport honours deadlines
	{
		tap := &stallConn{memConn: newMemConn(), released: make(chan struct{})}
		base := runtime.NumGoroutine()
		t0 := time.Now()
		var err error
		var conn *gws.Conn
		ok := runWithTimeout(5*time.Second, func() {
			up := gws.NewUpgrader(&recHandler{}, &gws.ServerOption{HandshakeTimeout: 150 * time.Millisecond})
			hd := http.Header{}
			hd.Set("Connection", "Upgrade")
			hd.Set("Upgrade", "websocket")
			hd.Set("Sec-WebSocket-Version", "13")
			hd.Set("Sec-WebSocket-Key", testKey)
			r := &http.Request{Method: "GET", Header: hd, Proto: "HTTP/1.1", ProtoMajor: 1, ProtoMinor: 1}
			conn, err = up.UpgradeFromConn(tap, bufio.NewReader(tap), r)
		})
		closed, _ := tap.isClosed()
		tag := "server handshake, response write stalls, deadlines honoured"
		replay := map[string]any{"tag": tag, "elapsed_ms": time.Since(t0).Milliseconds(), "err": fmt.Sprint(err)}
		switch {
		case !ok:
			c.oracleFail(fmt.Sprintf("did not return within 5 s (timeout 150 ms), transport closed=%v [%s]", closed, tag), "handshake-timeout", replay)
			_ = tap.Close()
		case err == nil || conn != nil || !closed:
			c.oracleFail(fmt.Sprintf("err=%v conn=%v transport closed=%v [%s]", err, conn != nil, closed, tag), "handshake-error-path", replay)
		}
		if n := settleGoroutines(base); n > base {
			c.oracleFail(fmt.Sprintf("%d goroutine(s) left behind after a handshake whose response write stalled [%s]", n-base, tag), "goroutine-leak", replay)
		}
		c.count(tag, true, "fault=handshake-write-stall")
	}
	// D10 (known finding): a local close blocks behind a writer stalled inside the transport
	{
		spec := connSpec{Server: true}
		conn, tap, err := spec.open(&recHandler{})
		if err != nil {
			return err
		}
		gate := make(chan struct{})
		entered := make(chan int, 4)
		tap.mu.Lock()
		tap.gate, tap.gateEntered = gate, entered
		tap.mu.Unlock()
		go func() { _ = conn.WriteMessage(gws.OpcodeBinary, []byte("stalled")) }()
		<-entered
		done := make(chan struct{})
		go func() { _ = conn.WriteClose(1000, nil); close(done) }()
		select {
		case <-done:
		case <-time.After(400 * time.Millisecond):
			c.oracleFail("WriteClose did not complete within 400 ms while another writer is stalled inside transport Write", "close-blocks-behind-stalled-writer",
				map[string]any{"scenario": "WriteMessage parked in conn.Write; WriteClose from a second goroutine"})
		}
		close(gate) // release everything
		<-done
		c.count("d10", true, "fault=stalled-writer")
	}
	return nil
}

// stallConn: Write blocks until the connection is closed (or, when deadlines are honoured, until the write deadline).
type stallConn struct {
	*memConn
	ignoreDeadline bool
	once           sync.Once
	released       chan struct{}
	dl             atomic.Value // time.Time
}

func (s *stallConn) Write(p []byte) (int, error) {
	var timer <-chan time.Time
	if d, ok := s.dl.Load().(time.Time); ok && !s.ignoreDeadline && !d.IsZero() {
		timer = time.After(time.Until(d))
	}
	select {
	case <-s.released:
		return 0, net.ErrClosed
	case <-timer:
		return 0, os.ErrDeadlineExceeded
	}
}
func (s *stallConn) Close() error {
	s.once.Do(func() { close(s.released) })
	return s.memConn.Close()
}
func (s *stallConn) SetDeadline(t time.Time) error {
	s.dl.Store(t)
	if s.ignoreDeadline {
		return nil
	}
	return s.memConn.SetDeadline(t)
}
func (s *stallConn) SetWriteDeadline(t time.Time) error { s.dl.Store(t); return nil }
