package main

// C19: gws.ConcurrentMap and a connection's default session storage behave like ONE atomic map.
//  (a) sequential random operation sequences against a builtin Go map (oracle) and, through the
//      recorded cases, against the Coq model Model/ShardMap.v (the hash is shipped as an observed
//      key -> shard table);
//  (b) concurrent histories (run in a child process so that a Go runtime "concurrent map ..." fatal
//      error of a broken lock discipline is reported as a failing input, not as a dead harness):
//      per-key linearizability by porcupine, Len against the bounds implied by the overlapping
//      operations, Range exactly-once on stable keys and early stop.

import (
	"bytes"
	"encoding/json"
	"fmt"
	"math/rand"
	"os"
	"os/exec"
	"reflect"
	"sort"
	"strings"
	"sync"
	"sync/atomic"
	"time"

	"github.com/anishathalye/porcupine"
	"github.com/lxzan/gws"
)

func init() {
	runners["C19"] = runC19
	if spec := os.Getenv("VERIF_C19_CHILD"); spec != "" {
		c19Child(spec)
		os.Exit(0)
	}
}

// ------------------------------------------------------------------------------------------------
// the two map types behind one interface

type c19Map interface {
	Load(k string) (int, bool)
	Store(k string, v int)
	Delete(k string)
	Len() int
	Range(f func(k string, v int) bool)
}

type c19CM struct {
	m *gws.ConcurrentMap[string, int]
}

func (a c19CM) Load(k string) (int, bool)          { return a.m.Load(k) }
func (a c19CM) Store(k string, v int)              { a.m.Store(k, v) }
func (a c19CM) Delete(k string)                    { a.m.Delete(k) }
func (a c19CM) Len() int                           { return a.m.Len() }
func (a c19CM) Range(f func(k string, v int) bool) { a.m.Range(f) }

// the storage is fetched through Conn.Session() at EVERY call, as an application does (the first uses may be concurrent)
type c19SS struct{ conn *gws.Conn }

func (a c19SS) st() gws.SessionStorage { return a.conn.Session() }

func (a c19SS) Load(k string) (int, bool) {
	v, ok := a.st().Load(k)
	if !ok {
		return 0, false
	}
	if v == nil {
		return 0, true
	}
	if sl, isSlice := v.([]int); isSlice && len(sl) == 1 {
		return sl[0], true
	}
	n, isInt := v.(int)
	if !isInt {
		return -1, true
	}
	return n, true
}

// the value 0 is stored as nil: `any(nil)` is a legal value of the session storage and must stay distinguishable from "absent"
func (a c19SS) Store(k string, v int) {
	if v == 0 {
		a.st().Store(k, nil)
		return
	}
	if v%3 == 1 { // a value of a type that cannot be compared with == (a slice): storing it twice is as legal as storing it once
		a.st().Store(k, []int{v})
		return
	}
	a.st().Store(k, v)
}
func (a c19SS) Delete(k string) { a.st().Delete(k) }
func (a c19SS) Len() int        { return a.st().Len() }
func (a c19SS) Range(f func(k string, v int) bool) {
	a.st().Range(func(k string, v any) bool {
		if sl, isSlice := v.([]int); isSlice && len(sl) == 1 {
			return f(k, sl[0])
		}
		n, _ := v.(int)
		return f(k, n)
	})
}

// kind 0: gws.NewConcurrentMap[string,int](req) ; kind 1: default session storage of a connection
func c19New(kind, req int) (c19Map, *gws.ConcurrentMap[string, int], error) {
	if kind == 0 {
		cm := gws.NewConcurrentMap[string, int](uint64(req))
		return c19CM{cm}, cm, nil
	}
	conn, _, err := clientConn(&gws.ClientOption{}, &gws.BuiltinEventHandler{}, newMemConn(), "", nil)
	if err != nil {
		return nil, nil, fmt.Errorf("client handshake: %v", err)
	}
	return c19SS{conn}, nil, nil
}

// observed shard count and key -> shard index table (pointer identity of GetSharding against the
// shardings slice read by reflection; nothing is written)
func c19Table(cm *gws.ConcurrentMap[string, int], keys []string) (int, []int, error) {
	if cm == nil {
		return 1, make([]int, len(keys)), nil
	}
	sv := reflect.ValueOf(cm).Elem().FieldByName("shardings")
	if !sv.IsValid() || sv.Kind() != reflect.Slice {
		return 0, nil, fmt.Errorf("ConcurrentMap.shardings not found")
	}
	ptr := map[uintptr]int{}
	for i := 0; i < sv.Len(); i++ {
		ptr[sv.Index(i).Pointer()] = i
	}
	tbl := make([]int, len(keys))
	for i, k := range keys {
		ix, ok := ptr[reflect.ValueOf(cm.GetSharding(k)).Pointer()]
		if !ok {
			return 0, nil, fmt.Errorf("GetSharding(%q) is not one of the shards", k)
		}
		tbl[i] = ix
	}
	return sv.Len(), tbl, nil
}

func c19Keys(n int) []string {
	ks := make([]string, n)
	for i := range ks {
		ks[i] = fmt.Sprintf("key-%d", i)
	}
	return ks
}

func c19Name(kind, req int) string {
	if kind == 1 {
		return "session"
	}
	return fmt.Sprintf("cmap(%d)", req)
}

// ------------------------------------------------------------------------------------------------
// (a) sequential

func c19Seq(c *Ctx, kind, req, nkeys, nops int) (err error) {
	var log []string
	defer func() {
		if r := recover(); r != nil {
			lg := log
			if len(lg) > 400 {
				lg = lg[len(lg)-400:]
			}
			c.oracleFail(fmt.Sprintf("%s, %d keys: panic after %d operations (the next GetSharding/Load/Store/Delete/Len/Range call): %v", c19Name(kind, req), nkeys, len(log), r),
				"seq-panic", map[string]any{"map": c19Name(kind, req), "keys": nkeys, "ops": lg})
			err = nil
		}
	}()
	m, cm, err := c19New(kind, req)
	if err != nil {
		return err
	}
	keys := c19Keys(nkeys)
	kid := map[string]int{}
	for i, k := range keys {
		kid[k] = i
	}
	num, tbl, err := c19Table(cm, keys)
	if err != nil {
		return err
	}
	oracle := map[string]int{}
	ops := make(VL, 0, nops)
	name := c19Name(kind, req)
	failed := false
	fail := func(what, sig string) {
		if failed {
			return
		}
		failed = true
		lg := log
		if len(lg) > 400 {
			lg = append([]string{fmt.Sprintf("... %d earlier operations omitted (re-run with the seed) ...", len(lg)-400)}, lg[len(lg)-400:]...)
		}
		c.oracleFail(fmt.Sprintf("%s, %d keys, operation #%d: %s", name, nkeys, len(log), what), sig,
			map[string]any{"map": name, "keys": nkeys, "ops": lg})
	}
	nvis := 0
	for i := 0; i < nops && !failed; i++ {
		k := keys[c.Rng.Intn(nkeys)]
		switch p := c.Rng.Intn(100); {
		case p < 34:
			v := c.Rng.Intn(1 << 20)
			if c.Rng.Intn(6) == 0 {
				v = 0 // the zero value (nil in the session storage, see c19SS.Store): a legal value, not "absent"
			}
			m.Store(k, v)
			oracle[k] = v
			log = append(log, fmt.Sprintf("Store(%s,%d)", k, v))
			ops = append(ops, VL{VN(1), VN(kid[k]), VN(v)})
		case p < 54:
			m.Delete(k)
			delete(oracle, k)
			log = append(log, fmt.Sprintf("Delete(%s)", k))
			ops = append(ops, VL{VN(2), VN(kid[k])})
		case p < 84:
			v, ok := m.Load(k)
			log = append(log, fmt.Sprintf("Load(%s)=(%d,%v)", k, v, ok))
			wv, wok := oracle[k]
			if ok != wok || (ok && v != wv) {
				fail(fmt.Sprintf("Load(%s) = (%d,%v), one map gives (%d,%v)", k, v, ok, wv, wok), "seq-load")
			}
			if v < 0 {
				v = 0
			}
			ops = append(ops, VL{VN(0), VN(kid[k]), vbool(ok), VN(v)})
		case p < 92:
			n := m.Len()
			log = append(log, fmt.Sprintf("Len()=%d", n))
			if n != len(oracle) {
				fail(fmt.Sprintf("Len() = %d, one map has %d entries", n, len(oracle)), "seq-len")
			}
			if n < 0 {
				n = 0
			}
			ops = append(ops, VL{VN(3), VN(n)})
		default:
			stop := 0
			if c.Rng.Intn(2) == 0 {
				stop = 1 + c.Rng.Intn(len(oracle)+2)
			}
			var seen []string
			var vis VL
			calls, afterFalse := 0, 0
			stopped := false
			dup := ""
			seenSet := map[string]bool{}
			wrong := ""
			m.Range(func(k string, v int) bool {
				calls++
				if stopped {
					afterFalse++
				}
				if seenSet[k] {
					dup = k
				}
				seenSet[k] = true
				if wv, ok := oracle[k]; !ok || wv != v {
					wrong = fmt.Sprintf("(%s,%d)", k, v)
				}
				seen = append(seen, fmt.Sprintf("%s=%d", k, v))
				id, known := kid[k]
				if !known {
					id = 1 << 30
				}
				if v < 0 {
					v = 0
				}
				vis = append(vis, VL{VN(id), VN(v)})
				if calls == stop {
					stopped = true
					return false
				}
				return true
			})
			nvis += calls
			log = append(log, fmt.Sprintf("Range(stop at call %d) visited %v", stop, seen))
			want := len(oracle)
			if stop > 0 && stop < want {
				want = stop
			}
			switch {
			case afterFalse > 0:
				fail(fmt.Sprintf("Range called the callback %d more time(s) after it returned false at call %d", afterFalse, stop), "seq-range-stop")
			case dup != "":
				fail(fmt.Sprintf("Range visited %s twice", dup), "seq-range-dup")
			case wrong != "":
				fail(fmt.Sprintf("Range visited %s which is not an entry of the map", wrong), "seq-range-phantom")
			case calls != want:
				fail(fmt.Sprintf("Range visited %d entries, expected %d (entries %d, stop %d)", calls, want, len(oracle), stop), "seq-range-count")
			}
			ops = append(ops, VL{VN(4), VN(stop), vis})
		}
	}
	tv := make(VL, len(tbl))
	used := map[int]bool{}
	for i, x := range tbl {
		tv[i] = VN(x)
		used[x] = true
	}
	tag := fmt.Sprintf("seq %s keys=%d ops=%d shards=%d", name, nkeys, len(ops), num)
	c.addCase("C19seq", VL{VN(kind), VN(req), VN(num), tv, ops}, tag)
	c.count(tag+strings.Join(log[:min(len(log), 50)], ";"), len(ops) > 10, "seq:"+name, fmt.Sprintf("seq-ops<=%d", c19Bucket(len(ops))),
		fmt.Sprintf("shards-used=%d/%d", len(used), num))
	if len(ops) <= 60 {
		c.sample(map[string]any{"map": name, "keys": nkeys, "ops": log})
	}
	_ = nvis
	return nil
}

func c19Bucket(n int) int {
	b := 100
	for b < n {
		b *= 10
	}
	return b
}

// ------------------------------------------------------------------------------------------------
// (b) concurrent, child process side

type c19Fail struct {
	What   string `json:"what"`
	Sig    string `json:"sig"`
	Replay any    `json:"replay"`
}

type c19ChildOut struct {
	Fails []c19Fail      `json:"fails"`
	Stats map[string]int `json:"stats"`
	Notes []string       `json:"notes"`
}

type c19Spec struct {
	Scenario string `json:"scenario"` // lin | len | range
	Kind     int    `json:"kind"`
	Req      int    `json:"req"`
	Seed     int64  `json:"seed"`
	Rounds   int    `json:"rounds"`
	Ops      int    `json:"ops"`
}

type c19Op struct {
	G      int    // goroutine
	Kind   string // load store delete
	Key    int
	Val    int
	Ok     bool
	Call   int64
	Ret    int64
	Effect int // +1 inserted a new key, -1 removed a present key (single-writer scenarios only)
}

func (o c19Op) String() string {
	switch o.Kind {
	case "load":
		return fmt.Sprintf("g%d Load(key-%d)=(%d,%v) [%d,%d]", o.G, o.Key, o.Val, o.Ok, o.Call, o.Ret)
	case "store":
		return fmt.Sprintf("g%d Store(key-%d,%d) [%d,%d]", o.G, o.Key, o.Val, o.Call, o.Ret)
	default:
		return fmt.Sprintf("g%d Delete(key-%d) [%d,%d]", o.G, o.Key, o.Call, o.Ret)
	}
}

func c19Child(specJSON string) {
	var sp c19Spec
	if err := json.Unmarshal([]byte(specJSON), &sp); err != nil {
		fmt.Fprintln(os.Stderr, "bad spec", err)
		os.Exit(4)
	}
	out := &c19ChildOut{Stats: map[string]int{}}
	for r := 0; r < sp.Rounds && len(out.Fails) == 0; r++ {
		rng := rand.New(rand.NewSource(sp.Seed*1000 + int64(r)))
		m, _, err := c19New(sp.Kind, sp.Req)
		if err != nil {
			fmt.Fprintln(os.Stderr, err)
			os.Exit(4)
		}
		switch sp.Scenario {
		case "lin":
			c19Lin(m, sp, rng, out)
		case "len":
			c19Len(m, sp, rng, out)
		case "range":
			c19Range(m, sp, rng, out)
		case "first":
			c19First(m, sp, r, out)
			c19DeleteTogether(m, sp, r, out)
		case "linlen":
			c19LinLen(m, sp, rng, out)
		}
	}
	js, _ := json.Marshal(out)
	os.Stdout.Write(js)
}

// the very first operations on a FRESH storage, issued by several goroutines released together: every completed Store
// must be visible afterwards (a history "Store(k,v) completes; Load(k) -> absent" with no Delete is not linearizable)
func c19First(m c19Map, sp c19Spec, round int, out *c19ChildOut) {
	G := 2 + round%3
	var ready, wg sync.WaitGroup
	var goFlag int32
	ready.Add(G)
	wg.Add(G)
	for g := 0; g < G; g++ {
		go func(g int) {
			defer wg.Done()
			ready.Done()
			for atomic.LoadInt32(&goFlag) == 0 {
			}
			m.Store(fmt.Sprintf("first-%d", g), 100+g)
		}(g)
	}
	ready.Wait()
	atomic.StoreInt32(&goFlag, 1)
	wg.Wait()
	out.Stats["first:rounds"]++
	for g := 0; g < G; g++ {
		if v, ok := m.Load(fmt.Sprintf("first-%d", g)); !ok || v != 100+g {
			out.Fails = append(out.Fails, c19Fail{
				What: fmt.Sprintf("%s: %d goroutines made the first Store calls on a fresh storage together; Store(first-%d,%d) completed, then Load(first-%d) -> (%d,%v) with no Delete (round %d)",
					c19Name(sp.Kind, sp.Req), G, g, 100+g, g, v, ok, round),
				Sig: "conc-first-store-lost", Replay: map[string]any{"spec": sp, "round": round, "goroutines": G}})
			return
		}
	}
	if n := m.Len(); n != G {
		out.Fails = append(out.Fails, c19Fail{What: fmt.Sprintf("%s: after %d completed Stores of distinct keys on a fresh storage Len() = %d (round %d)", c19Name(sp.Kind, sp.Req), G, n, round),
			Sig: "conc-first-store-lost", Replay: map[string]any{"spec": sp, "round": round}})
	}
}

// several goroutines delete the SAME present key at the same moment (and one stores another key): once everything has
// returned, Len and Range must agree with the keys that are left - every linearization has exactly one effective Delete
func c19DeleteTogether(m c19Map, sp c19Spec, round int, out *c19ChildOut) {
	G := 2 + round%3
	base := 3 + round%2
	for i := 0; i < base; i++ {
		m.Store(fmt.Sprintf("dt-%d", i), i)
	}
	before := m.Len()
	var ready, wg sync.WaitGroup
	var goFlag int32
	ready.Add(G + 1)
	wg.Add(G + 1)
	for g := 0; g < G; g++ {
		go func() {
			defer wg.Done()
			ready.Done()
			for atomic.LoadInt32(&goFlag) == 0 {
			}
			m.Delete("dt-0")
		}()
	}
	go func() {
		defer wg.Done()
		ready.Done()
		for atomic.LoadInt32(&goFlag) == 0 {
		}
		m.Store("dt-new", 99)
	}()
	ready.Wait()
	atomic.StoreInt32(&goFlag, 1)
	wg.Wait()
	out.Stats["delete-together:rounds"]++
	want := before // one key removed, one key added
	seen := 0
	m.Range(func(k string, v int) bool { seen++; return true })
	if n := m.Len(); n != want || seen != want {
		out.Fails = append(out.Fails, c19Fail{
			What: fmt.Sprintf("%s: %d goroutines deleted the same present key together while one stored a new key; afterwards (quiescent) Len() = %d and Range visits %d entries, %d keys are present (round %d)",
				c19Name(sp.Kind, sp.Req), G, n, seen, want, round),
			Sig: "conc-delete-together", Replay: map[string]any{"spec": sp, "round": round, "goroutines": G}})
	}
	m.Delete("dt-new")
	for i := 1; i < base; i++ {
		m.Delete(fmt.Sprintf("dt-%d", i))
	}
}

// 8 goroutines x 3 keys: every history of one key must be linearizable w.r.t. a register-with-absence
func c19Lin(m c19Map, sp c19Spec, rng *rand.Rand, out *c19ChildOut) {
	const G, K = 8, 3
	keys := c19Keys(K)
	var clock atomic.Int64
	hist := make([][]c19Op, G)
	seeds := make([]int64, G)
	for g := range seeds {
		seeds[g] = rng.Int63()
	}
	var wg sync.WaitGroup
	start := make(chan struct{})
	for g := 0; g < G; g++ {
		wg.Add(1)
		go func(g int) {
			defer wg.Done()
			r := rand.New(rand.NewSource(seeds[g]))
			ops := make([]c19Op, 0, sp.Ops)
			<-start
			for i := 0; i < sp.Ops; i++ {
				k := r.Intn(K)
				o := c19Op{G: g, Key: k}
				switch p := r.Intn(10); {
				case p < 4:
					o.Kind, o.Val = "store", g*10_000_000+i+1
					o.Call = clock.Add(1)
					m.Store(keys[k], o.Val)
					o.Ret = clock.Add(1)
				case p < 6:
					o.Kind = "delete"
					o.Call = clock.Add(1)
					m.Delete(keys[k])
					o.Ret = clock.Add(1)
				default:
					o.Kind = "load"
					o.Call = clock.Add(1)
					o.Val, o.Ok = m.Load(keys[k])
					o.Ret = clock.Add(1)
				}
				ops = append(ops, o)
			}
			hist[g] = ops
		}(g)
	}
	close(start)
	wg.Wait()
	type st struct {
		ok bool
		v  int
	}
	model := porcupine.Model{
		Init: func() interface{} { return st{} },
		Step: func(state, input, output interface{}) (bool, interface{}) {
			s, o := state.(st), input.(c19Op)
			switch o.Kind {
			case "store":
				return true, st{true, o.Val}
			case "delete":
				return true, st{}
			default:
				res := output.(c19Op)
				return res.Ok == s.ok && (!s.ok || res.Val == s.v), s
			}
		},
		Equal: func(a, b interface{}) bool { return a.(st) == b.(st) },
	}
	for k := 0; k < K; k++ {
		var ph []porcupine.Operation
		var flat []c19Op
		for g := 0; g < G; g++ {
			for _, o := range hist[g] {
				if o.Key == k {
					ph = append(ph, porcupine.Operation{ClientId: g, Input: o, Output: o, Call: o.Call, Return: o.Ret})
					flat = append(flat, o)
				}
			}
		}
		out.Stats["lin-ops"] += len(ph)
		out.Stats["lin-histories"]++
		res := porcupine.CheckOperationsTimeout(model, ph, 20*time.Second)
		if res == porcupine.Unknown {
			out.Notes = append(out.Notes, fmt.Sprintf("porcupine timed out on a history of %d operations", len(ph)))
			continue
		}
		if res == porcupine.Illegal {
			sort.Slice(flat, func(i, j int) bool { return flat[i].Call < flat[j].Call })
			// shrink to a short failing prefix (by invocation time) for the replay
			lo, hi := 1, len(flat)
			for lo < hi {
				mid := (lo + hi) / 2
				var sub []porcupine.Operation
				for _, o := range flat[:mid] {
					sub = append(sub, porcupine.Operation{ClientId: o.G, Input: o, Output: o, Call: o.Call, Return: o.Ret})
				}
				if porcupine.CheckOperationsTimeout(model, sub, 10*time.Second) == porcupine.Illegal {
					hi = mid
				} else {
					lo = mid + 1
				}
			}
			var ss []string
			for _, o := range flat[:lo] {
				ss = append(ss, o.String())
			}
			if len(ss) > 300 {
				ss = ss[len(ss)-300:]
			}
			out.Fails = append(out.Fails, c19Fail{
				What:   fmt.Sprintf("%s: the history of key-%d (%d operations from %d goroutines) is NOT linearizable w.r.t. one atomic map; last operation of the shortest failing prefix: %s", c19Name(sp.Kind, sp.Req), k, lo, G, flat[lo-1].String()),
				Sig:    "conc-not-linearizable",
				Replay: map[string]any{"spec": sp, "key": k, "history(prefix, [call,return] stamps of a shared counter)": ss}})
			return
		}
	}
}

// stable keys never touched + churn keys with a single writer each: Len sampled concurrently must lie
// within [base - removals overlapping, base + insertions overlapping]
func c19Len(m c19Map, sp c19Spec, rng *rand.Rand, out *c19ChildOut) {
	const W, PerW, Stable, Samplers = 6, 2, 9, 2
	keys := c19Keys(Stable + W*PerW)
	for i := 0; i < Stable; i++ {
		m.Store(keys[i], i)
	}
	var clock atomic.Int64
	hist := make([][]c19Op, W)
	type sample struct {
		T0, T1 int64
		N      int
	}
	samples := make([][]sample, Samplers)
	var wg sync.WaitGroup
	var done atomic.Int32
	start := make(chan struct{})
	seeds := make([]int64, W)
	for g := range seeds {
		seeds[g] = rng.Int63()
	}
	for g := 0; g < W; g++ {
		wg.Add(1)
		go func(g int) {
			defer wg.Done()
			defer done.Add(1)
			r := rand.New(rand.NewSource(seeds[g]))
			present := [PerW]bool{}
			ops := make([]c19Op, 0, sp.Ops)
			<-start
			for i := 0; i < sp.Ops; i++ {
				j := r.Intn(PerW)
				k := Stable + g*PerW + j
				o := c19Op{G: g, Key: k}
				if r.Intn(2) == 0 {
					o.Kind, o.Val = "store", i
					if !present[j] {
						o.Effect = 1
					}
					o.Call = clock.Add(1)
					m.Store(keys[k], i)
					o.Ret = clock.Add(1)
					present[j] = true
				} else {
					o.Kind = "delete"
					if present[j] {
						o.Effect = -1
					}
					o.Call = clock.Add(1)
					m.Delete(keys[k])
					o.Ret = clock.Add(1)
					present[j] = false
				}
				ops = append(ops, o)
			}
			hist[g] = ops
		}(g)
	}
	var swg sync.WaitGroup
	for s := 0; s < Samplers; s++ {
		swg.Add(1)
		go func(s int) {
			defer swg.Done()
			<-start
			for i := 0; i < 4*sp.Ops && (int(done.Load()) < W || i < 20); i++ {
				t0 := clock.Add(1)
				n := m.Len()
				t1 := clock.Add(1)
				samples[s] = append(samples[s], sample{t0, t1, n})
			}
		}(s)
	}
	close(start)
	wg.Wait()
	swg.Wait()
	for s := range samples {
		for _, sm := range samples[s] {
			base, insOv, delOv := Stable, 0, 0
			var overlapping []string
			for g := 0; g < W; g++ {
				for _, o := range hist[g] {
					if o.Effect == 0 {
						continue
					}
					switch {
					case o.Ret < sm.T0:
						base += o.Effect
					case o.Call > sm.T1:
					default:
						if o.Effect > 0 {
							insOv++
						} else {
							delOv++
						}
						overlapping = append(overlapping, o.String())
					}
				}
			}
			out.Stats["len-samples"]++
			if insOv+delOv > 0 {
				out.Stats["len-samples-overlapped"]++
			}
			if sm.N < base-delOv || sm.N > base+insOv {
				out.Fails = append(out.Fails, c19Fail{
					What: fmt.Sprintf("%s: Len() = %d during [%d,%d], but %d entries were present before and only %d insertion(s) / %d removal(s) overlap it: allowed [%d,%d]",
						c19Name(sp.Kind, sp.Req), sm.N, sm.T0, sm.T1, base, insOv, delOv, base-delOv, base+insOv),
					Sig:    "conc-len-bounds",
					Replay: map[string]any{"spec": sp, "stable_keys": Stable, "entries_before": base, "len": sm.N, "interval": []int64{sm.T0, sm.T1}, "overlapping_effective_ops": overlapping}})
				return
			}
		}
	}
}

// Range while OTHER keys are stored/deleted: every stable key exactly once with its value, no key
// twice, only values that were written, no callback after a false
func c19Range(m c19Map, sp c19Spec, rng *rand.Rand, out *c19ChildOut) {
	const W, PerW, Stable, Rangers = 6, 2, 10, 2
	keys := c19Keys(Stable + W*PerW)
	kid := map[string]int{}
	for i, k := range keys {
		kid[k] = i
	}
	for i := 0; i < Stable; i++ {
		m.Store(keys[i], 1000+i)
	}
	var wg, rwg sync.WaitGroup
	var done atomic.Int32
	start := make(chan struct{})
	for g := 0; g < W; g++ {
		wg.Add(1)
		seed := rng.Int63()
		go func(g int) {
			defer wg.Done()
			defer done.Add(1)
			r := rand.New(rand.NewSource(seed))
			<-start
			for i := 0; i < sp.Ops; i++ {
				k := Stable + g*PerW + r.Intn(PerW)
				if r.Intn(2) == 0 {
					m.Store(keys[k], k*1_000_000+i) // value encodes the key
				} else {
					m.Delete(keys[k])
				}
			}
		}(g)
	}
	var mu sync.Mutex
	report := func(f c19Fail) {
		mu.Lock()
		if len(out.Fails) == 0 {
			out.Fails = append(out.Fails, f)
		}
		mu.Unlock()
	}
	for s := 0; s < Rangers; s++ {
		rwg.Add(1)
		seed := rng.Int63()
		go func(s int) {
			defer rwg.Done()
			r := rand.New(rand.NewSource(seed))
			<-start
			n := 0
			for i := 0; i < sp.Ops && (int(done.Load()) < W || i < 10); i++ {
				stop := 0
				if r.Intn(3) == 0 {
					stop = 1 + r.Intn(Stable+4)
				}
				var seen []string
				cnt := map[string]int{}
				calls, afterFalse, bad := 0, 0, ""
				stopped := false
				m.Range(func(k string, v int) bool {
					calls++
					if stopped {
						afterFalse++
					}
					cnt[k]++
					seen = append(seen, fmt.Sprintf("%s=%d", k, v))
					id, ok := kid[k]
					switch {
					case !ok:
						bad = "unknown key " + k
					case id < Stable && v != 1000+id:
						bad = fmt.Sprintf("stable %s has value %d", k, v)
					case id >= Stable && v/1_000_000 != id:
						bad = fmt.Sprintf("%s has value %d never stored under it", k, v)
					}
					if calls == stop {
						stopped = true
						return false
					}
					return true
				})
				n++
				what := ""
				switch {
				case afterFalse > 0:
					what = fmt.Sprintf("callback called %d more time(s) after returning false at call %d", afterFalse, stop)
				case bad != "":
					what = bad
				}
				for k, c := range cnt {
					if c > 1 {
						what = fmt.Sprintf("%s visited %d times by one Range", k, c)
					}
				}
				if what == "" && !stopped {
					for i := 0; i < Stable; i++ {
						if cnt[keys[i]] != 1 {
							what = fmt.Sprintf("stable %s (present and unmodified throughout) visited %d times", keys[i], cnt[keys[i]])
						}
					}
				}
				if what != "" {
					report(c19Fail{What: fmt.Sprintf("%s: Range concurrent with Store/Delete of other keys: %s", c19Name(sp.Kind, sp.Req), what),
						Sig: "conc-range", Replay: map[string]any{"spec": sp, "stable_keys": Stable, "stop_at_call": stop, "visited": seen}})
					return
				}
			}
			mu.Lock()
			out.Stats["range-calls"] += n
			mu.Unlock()
		}(s)
	}
	close(start)
	wg.Wait()
	rwg.Wait()
}

// ------------------------------------------------------------------------------------------------
// parent side

func c19RunChild(c *Ctx, sp c19Spec) error {
	js, _ := json.Marshal(sp)
	exe, err := os.Executable()
	if err != nil {
		return err
	}
	cmd := exec.Command(exe)
	cmd.Env = append(os.Environ(), "VERIF_C19_CHILD="+string(js))
	var so, se bytes.Buffer
	cmd.Stdout, cmd.Stderr = &so, &se
	done := make(chan error, 1)
	if err := cmd.Start(); err != nil {
		return err
	}
	go func() { done <- cmd.Wait() }()
	var werr error
	select {
	case werr = <-done:
	case <-time.After(240 * time.Second):
		cmd.Process.Kill()
		<-done
		c.oracleFail(fmt.Sprintf("%s scenario %q: operations did not terminate within 240 s (deadlock?)", c19Name(sp.Kind, sp.Req), sp.Scenario),
			"conc-hang", map[string]any{"spec": sp})
		return nil
	}
	name := c19Name(sp.Kind, sp.Req)
	if werr != nil {
		msg := se.String()
		first := msg
		if i := strings.Index(first, "\n"); i >= 0 {
			first = first[:i]
		}
		if len(msg) > 1500 {
			msg = msg[:1500]
		}
		if strings.Contains(se.String(), "bad spec") || strings.Contains(se.String(), "client handshake") {
			return fmt.Errorf("child: %s", msg)
		}
		c.oracleFail(fmt.Sprintf("%s scenario %q (8 goroutines, seed %d): the Go runtime aborted the process: %s", name, sp.Scenario, sp.Seed, first),
			"conc-crash", map[string]any{"spec": sp, "stderr": msg})
		c.count(fmt.Sprintf("conc %v", sp), true, "conc:"+sp.Scenario+":"+name)
		return nil
	}
	var out c19ChildOut
	if err := json.Unmarshal(so.Bytes(), &out); err != nil {
		return fmt.Errorf("child output: %v: %s", err, so.String())
	}
	for _, f := range out.Fails {
		c.oracleFail(f.What, f.Sig, f.Replay)
	}
	for k, v := range out.Stats {
		c.Sum.Distribution["conc:"+k] += v
	}
	c.Sum.Notes = append(c.Sum.Notes, out.Notes...)
	for r := 0; r < sp.Rounds; r++ {
		if sp.Scenario == "first" && r%100 != 0 {
			continue
		}
		c.count(fmt.Sprintf("conc %v round %d", sp, r), true, "conc:"+sp.Scenario+":"+name)
	}
	return nil
}

func runC19(c *Ctx) error {
	c.Sum.Rule = "sequential: random Load/Store/Delete/Len/Range(early stop) sequences on NewConcurrentMap(n), n in {0(default 16),1,2,3,5,16,64}, and on a connection's session storage, 3..40 keys, compared after every operation with a builtin map and re-run on the Coq model with the observed key->shard table; " +
		"concurrent (child processes): 8 goroutines x 3 keys histories checked per key by porcupine, Len sampled against bounds from overlapping single-writer operations, Range exactly-once on stable keys under churn; non-trivial = more than 10 operations"
	type cfg struct{ kind, req int }
	cfgs := []cfg{{0, 1}, {0, 2}, {0, 16}, {0, 64}, {0, 3}, {0, 5}, {0, 0}, {1, 0}}
	// short sequences first (small failing inputs, kernel sample), then long ones
	short, sizes := 6, []int{1000, 6000}
	if !c.quick() {
		short, sizes = 60, []int{1000, 10000, 100000}
	}
	for _, cf := range cfgs {
		for i := 0; i < short; i++ {
			if err := c19Seq(c, cf.kind, cf.req, 3+c.Rng.Intn(6), 25+c.Rng.Intn(40)); err != nil {
				return err
			}
		}
	}
	for _, cf := range cfgs {
		for _, n := range sizes {
			nk := 3 + c.Rng.Intn(38)
			if err := c19Seq(c, cf.kind, cf.req, nk, n); err != nil {
				return err
			}
		}
	}
	// concurrent
	rounds, ops := 6, 300
	if !c.quick() {
		rounds, ops = 300, 500
	}
	firstRounds := 4000
	if !c.quick() {
		firstRounds = 60000
	}
	for _, cf := range []cfg{{1, 0}, {0, 16}, {0, 1}} {
		sp := c19Spec{Scenario: "first", Kind: cf.kind, Req: cf.req, Seed: c.Seed, Rounds: firstRounds}
		if err := c19RunChild(c, sp); err != nil {
			return err
		}
	}
	for _, cf := range []cfg{{0, 16}, {0, 2}, {0, 1}, {1, 0}, {0, 64}} {
		for _, sc := range []string{"lin", "len", "range", "linlen"} {
			if len(c.Sum.OracleFails) >= 6 {
				break
			}
			sp := c19Spec{Scenario: sc, Kind: cf.kind, Req: cf.req, Seed: c.Seed*100 + c.Rng.Int63n(1<<30), Rounds: rounds, Ops: ops}
			if sc == "linlen" {
				// Len is one atomic step only where the whole storage is behind ONE lock (the default session storage, a
				// ConcurrentMap of one shard); with several shards Len adds up shard sizes taken one after the other, and the
				// statement only bounds it (scenario "len")
				if !(cf.kind == 1 || cf.req == 1) {
					continue
				}
				sp.Rounds = 1 // one storage; its Ops are short histories checked one by one
			}
			if err := c19RunChild(c, sp); err != nil {
				return err
			}
		}
	}
	return nil
}

// c19LinLen: Len as part of the linearizability check, for storages behind one lock.  Many SHORT histories on two keys - three goroutines, a handful of
// Store / Delete / Len calls each, several goroutines on the same key - checked against ONE map {present keys}: a Len
// that reflects the operations in another order than the map saw them (an element count kept beside the map) has no
// linearization.
func c19LinLen(m c19Map, sp c19Spec, rng *rand.Rand, out *c19ChildOut) {
	const G, K, N = 3, 2, 5
	keys := c19Keys(K)
	type lop struct {
		G, Key    int
		Kind      string
		Len       int
		Call, Ret int64
	}
	model := porcupine.Model{
		Init: func() interface{} { return 0 },
		Step: func(state, input, output interface{}) (bool, interface{}) {
			s, o := state.(int), input.(lop)
			switch o.Kind {
			case "store":
				return true, s | 1<<uint(o.Key)
			case "delete":
				return true, s &^ (1 << uint(o.Key))
			default:
				n := 0
				for b := 0; b < K; b++ {
					n += s >> uint(b) & 1
				}
				return o.Len == n, s
			}
		},
		Equal: func(a, b interface{}) bool { return a.(int) == b.(int) },
	}
	histories := sp.Ops * 4
	for h := 0; h < histories && len(out.Fails) == 0; h++ {
		for _, k := range keys {
			m.Delete(k)
		}
		var clock atomic.Int64
		hist := make([][]lop, G)
		var wg sync.WaitGroup
		var ready sync.WaitGroup
		ready.Add(G)
		var goFlag int32
		seeds := make([]int64, G)
		for g := range seeds {
			seeds[g] = rng.Int63()
		}
		for g := 0; g < G; g++ {
			wg.Add(1)
			go func(g int) {
				defer wg.Done()
				r := rand.New(rand.NewSource(seeds[g]))
				ready.Done()
				for atomic.LoadInt32(&goFlag) == 0 {
				}
				for i := 0; i < N; i++ {
					o := lop{G: g, Key: r.Intn(K)}
					switch p := r.Intn(10); {
					case p < 4:
						o.Kind = "store"
						o.Call = clock.Add(1)
						m.Store(keys[o.Key], g*100+i+1)
						o.Ret = clock.Add(1)
					case p < 7:
						o.Kind = "delete"
						o.Call = clock.Add(1)
						m.Delete(keys[o.Key])
						o.Ret = clock.Add(1)
					default:
						o.Kind = "len"
						o.Call = clock.Add(1)
						o.Len = m.Len()
						o.Ret = clock.Add(1)
					}
					hist[g] = append(hist[g], o)
				}
			}(g)
		}
		ready.Wait()
		atomic.StoreInt32(&goFlag, 1)
		wg.Wait()
		var ph []porcupine.Operation
		var flat []lop
		for g := 0; g < G; g++ {
			for _, o := range hist[g] {
				ph = append(ph, porcupine.Operation{ClientId: g, Input: o, Output: o, Call: o.Call, Return: o.Ret})
				flat = append(flat, o)
			}
		}
		out.Stats["linlen-histories"]++
		if porcupine.CheckOperationsTimeout(model, ph, 10*time.Second) == porcupine.Illegal {
			sort.Slice(flat, func(i, j int) bool { return flat[i].Call < flat[j].Call })
			var lines []string
			for _, o := range flat {
				switch o.Kind {
				case "len":
					lines = append(lines, fmt.Sprintf("g%d Len()=%d [%d,%d]", o.G, o.Len, o.Call, o.Ret))
				default:
					lines = append(lines, fmt.Sprintf("g%d %s(key-%d) [%d,%d]", o.G, o.Kind, o.Key, o.Call, o.Ret))
				}
			}
			out.Fails = append(out.Fails, c19Fail{
				What:   fmt.Sprintf("%s: a history of %d Store/Delete/Len calls by %d goroutines on %d keys has no linearization as one map (call and return times in brackets): %s", c19Name(sp.Kind, sp.Req), len(flat), G, K, strings.Join(lines, "; ")),
				Sig:    "conc-not-linearizable",
				Replay: map[string]any{"spec": sp, "history": lines}})
		}
	}
}
