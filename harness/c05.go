package main

import (
	"bytes"
	"errors"
	"fmt"
	"io"
	"strings"
	"time"

	"github.com/lxzan/gws"
)

func init() { runners["C05"] = runC05 }

func cfgVal(s connSpec, conn *gws.Conn) V {
	pd := conn.VerifPD()
	wl := s.WLimit
	if wl <= 0 {
		wl = 16777216
	}
	return VL{vbool(s.Server), vbool(pd.Enabled), VZ(pd.Threshold), VZ(wl), vbool(s.Utf8)}
}

func slicesVal(sl [][]byte) V {
	l := VL{}
	for _, s := range sl {
		l = append(l, VB(s))
	}
	return l
}

// text that compresses and repeats earlier material (so back-references across messages really occur)
func textPayload(c *Ctx, n int, pool []byte) []byte {
	words := []string{"alpha ", "beta ", "gamma ", "delta ", "中文 ", "ключ ", "🙂 ", "lorem ipsum dolor sit amet "}
	var b []byte
	for len(b) < n {
		if len(pool) > 64 && c.Rng.Intn(3) == 0 {
			i := c.Rng.Intn(len(pool) - 32)
			// only ASCII stretches of the pool, to stay valid UTF-8
			seg := pool[i : i+32]
			ok := true
			for _, x := range seg {
				if x >= 0x80 {
					ok = false
				}
			}
			if ok {
				b = append(b, seg...)
				continue
			}
		}
		b = append(b, words[c.Rng.Intn(len(words))]...)
	}
	b = b[:n]
	// do not cut a multi-byte character: replace a dangling tail by ASCII
	for i := len(b) - 1; i >= 0 && i >= len(b)-4; i-- {
		if b[i] >= 0x80 {
			b[i] = 'x'
		} else {
			break
		}
	}
	for !goUtf8(b) {
		for i := range b {
			if b[i] >= 0x80 {
				b[i] = 'y'
			}
		}
	}
	return b
}

func splitSlices(c *Ctx, b []byte, k int) [][]byte {
	if k <= 1 || len(b) == 0 {
		return [][]byte{b}
	}
	var out [][]byte
	for i := 0; i < k-1 && len(b) > 0; i++ {
		n := c.Rng.Intn(len(b) + 1)
		out = append(out, b[:n])
		b = b[n:]
	}
	return append(out, b)
}

var c05Lengths = []int{0, 1, 2, 124, 125, 126, 127, 128, 511, 512, 513, 1000, 4096, 65535, 65536, 65537, 131058, 131071, 131072, 131073, 140000}

func c05Specs(c *Ctx) []connSpec {
	var specs []connSpec
	for _, server := range []bool{true, false} {
		specs = append(specs,
			connSpec{Server: server, Utf8: true},
			connSpec{Server: server, PMD: true, Utf8: true},                                                             // no takeover, threshold 512
			connSpec{Server: server, PMD: true, SrvTO: true, CliTO: true, SrvBits: 15, CliBits: 15, Utf8: false},        // takeover, threshold forced 0
			connSpec{Server: server, PMD: true, SrvTO: true, CliTO: true, SrvBits: 9, CliBits: 10, Utf8: true},          // small windows
			connSpec{Server: server, PMD: true, SrvTO: true, CliTO: true, peerDenyTO: true, Threshold: 100, Utf8: true}, // peer declines takeover
			connSpec{Server: server, PMD: true, SrvTO: server, CliTO: !server, SrvBits: 12, CliBits: 12, Threshold: 1, Level: 6},
			connSpec{Server: server, WLimit: 1000, Utf8: true},
		)
	}
	return specs
}

func runC05(c *Ctx) error {
	c.Sum.Rule = "every write API x both roles x 7 compression/limit configurations x every length-encoding boundary (0..140000) x reader chunkings of WriteFile; wire parsed by the harness's RFC 6455 decoder + RFC 7692 inflater (compress/flate); non-trivial = a send that put bytes on the wire; distinct by (config, api, opcode, payload hash)"
	apis := []string{"message", "writev", "async", "string", "writevasync", "broadcast"}
	lengths := c05Lengths
	if !c.quick() {
		for i := 0; i < 40; i++ {
			lengths = append(lengths, c.Rng.Intn(300000))
		}
		lengths = append(lengths, 262144, 262145, 1<<20)
	}
	for si, spec := range c05Specs(c) {
		var conn *gws.Conn
		var tap *memConn
		var rx *rfcReceiver
		var pd gws.PermessageDeflate
		reopen := func() error {
			var err error
			conn, tap, err = spec.open(&recHandler{})
			if err != nil {
				return fmt.Errorf("open %+v: %v", spec, err)
			}
			pd = conn.VerifPD()
			rx = &rfcReceiver{server: spec.Server}
			if pd.Enabled {
				if spec.Server {
					rx.takeover, rx.bits = pd.ServerContextTakeover, pd.ServerMaxWindowBits
				} else {
					rx.takeover, rx.bits = pd.ClientContextTakeover, pd.ClientMaxWindowBits
				}
			}
			return nil
		}
		if err := reopen(); err != nil {
			return err
		}
		var pool []byte
		step := 0
		send := func(op sendOp, label string) {
			step++
			if closed, _ := tap.isClosed(); closed {
				// an earlier rejected call failed the connection: continue on a fresh one
				if err := reopen(); err != nil {
					panic(err)
				}
			}
			var readsBefore int
			if op.Reader != nil {
				readsBefore = len(op.Reader.log)
			}
			obs := doSend(conn, tap, op)
			// a streamed send that fails after non-final frames have gone out must not leave the connection usable: the next
			// data frame would start a message inside the unfinished one
			if op.API == "file" && obs.Res != 0 && obs.Res != 9 {
				if fs, rest, err := parseFrames(obs.Wire); err == nil && len(rest) == 0 {
					var lastData *frame
					for i := range fs {
						if fs[i].Opcode < 8 {
							lastData = &fs[i]
						}
					}
					if closed, _ := tap.isClosed(); lastData != nil && !lastData.Fin && !closed {
						c.oracleFail(fmt.Sprintf("a streamed send failed (result %d) after non-final frames went out, and the connection is still open: the next message would start inside the unfinished one [spec=%d server=%v %s]", obs.Res, si, spec.Server, label),
							"unfinished-message-left-open", map[string]any{"spec": fmt.Sprintf("%+v", spec), "label": label})
					}
				}
			}
			// a failed call also fails the connection: emitError writes a Close frame (1001) behind it.
			// It is not part of the message; split it off (status checked here, body modelled under C06).
			if obs.Res != 0 && obs.Res != 9 {
				if fs, rest, err := parseFrames(obs.Wire); err == nil && len(rest) == 0 && len(fs) > 0 && fs[len(fs)-1].Opcode == 8 {
					cl := fs[len(fs)-1]
					if len(cl.Payload) < 2 || int(cl.Payload[0])<<8|int(cl.Payload[1]) != 1001 {
						c.oracleFail(fmt.Sprintf("Close frame after a failed write carries %x, expected status 1001", head(cl.Payload, 8)), "error-close-status", map[string]any{"api": op.API})
					}
					obs.Wire = obs.Wire[:len(obs.Wire)-len(cl.Raw)]
					obs.Calls = obs.Calls[:len(obs.Calls)-1]
				}
			}
			payload := joinSlices(op.Slices)
			if op.Reader != nil {
				payload = nil
				for _, ch := range op.Reader.chunks0() {
					payload = append(payload, ch...)
				}
			}
			tag := fmt.Sprintf("spec=%d server=%v pmd=%v api=%s op=%d len=%d %s", si, spec.Server, pd.Enabled, op.API, op.Opcode, len(payload), label)
			wl := spec.WLimit
			if wl <= 0 {
				wl = 16777216
			}
			// ---- the property's own oracle
			wantReject := 0
			if op.API != "file" {
				if op.Opcode == 1 && spec.Utf8 && !goUtf8(payload) {
					wantReject = 2
				} else if len(payload) > wl {
					wantReject = 3
				}
			}
			msgs, problem := rx.receive(obs.Wire)
			if op.API == "file" && obs.Res != 0 && obs.Res != 9 {
				// a streamed send that failed half-way (reader error, segment above the limit) leaves an unfinished
				// message followed by the Close frame of the failed connection: only per-frame well-formedness applies
				problem = ""
				if fs, rest, err := parseFrames(obs.Wire); err != nil || len(rest) != 0 {
					problem = "undecodable bytes after a failed streamed send"
				} else {
					for _, f := range fs {
						if p := wfOutbound(f, spec.Server); p != "" {
							problem = p
						}
					}
				}
			}
			replay := map[string]any{"spec": fmt.Sprintf("%+v", spec), "api": op.API, "opcode": op.Opcode, "payload_hex_prefix": fmt.Sprintf("%x", head(payload, 64)), "len": len(payload), "step": step, "wire_prefix": fmt.Sprintf("%x", head(obs.Wire, 64)), "result": obs.Res, "err": obs.ErrText}
			switch {
			case obs.Res == 9:
				c.oracleFail("write call panicked: "+obs.ErrText+" ("+tag+")", "write-panic", replay)
			case problem != "":
				c.oracleFail("outbound bytes are not well-formed frames: "+problem+" ("+tag+")", "outbound-malformed", replay)
			case wantReject != 0 && (obs.Res != wantReject || len(obs.Wire) != 0):
				c.oracleFail(fmt.Sprintf("call that must be rejected (%d) returned %d and wrote %d bytes (%s)", wantReject, obs.Res, len(obs.Wire), tag), "reject-wrong", replay)
			case wantReject == 0 && obs.Res == 0:
				if len(msgs) != 1 || msgs[0].Opcode != op.Opcode || !bytes.Equal(msgs[0].Payload, payload) {
					c.oracleFail("wire does not carry exactly the message that was sent ("+tag+")", "payload-differs", replay)
				}
				if len(msgs) == 1 && op.API != "file" && msgs[0].Frames != 1 {
					c.oracleFail("buffered API produced a fragmented message ("+tag+")", "unexpected-fragmentation", replay)
				}
				if op.API != "file" && len(obs.Calls) != 1 {
					c.oracleFail(fmt.Sprintf("frame handed to the transport in %d Write calls (%s)", len(obs.Calls), tag), "frame-split-writes", replay)
				}
			case wantReject == 0 && obs.Res != 0 && !(op.API == "file" && (obs.Res == 3 || obs.Res == 7)):
				c.oracleFail(fmt.Sprintf("valid call failed with %d %s (%s)", obs.Res, obs.ErrText, tag), "valid-call-failed", replay)
			}
			// ---- model correspondence
			var key, dout []byte
			if fs, _, _ := parseFrames(obs.Wire); len(fs) > 0 {
				key = fs[0].Key
			}
			if len(msgs) == 1 && msgs[0].Raw != nil {
				dout = msgs[0].Raw
			}
			switch op.API {
			case "file":
				if pd.Enabled {
					c.addCase("C05filez", VL{cfgVal(spec, conn), VN(op.Opcode), VB(payload), VN(obs.CpsCap), VB(obs.CpsBefore), VB(obs.Wire), VB(obs.CpsAfter), VN(obs.Res)}, tag)
				} else if op.Reader != nil { // (a standard reader keeps no log of its Read calls: oracle only)
					reads := VL{}
					for _, r := range op.Reader.log[readsBefore:] {
						reads = append(reads, VL{VB(r.Data), vbool(r.EOF)})
					}
					keys := VL{}
					fs, _, _ := parseFrames(obs.Wire)
					for _, f := range fs {
						keys = append(keys, VB(f.Key))
					}
					c.addCase("C05file", VL{cfgVal(spec, conn), VN(op.Opcode), reads, keys, VN(obs.Res), VB(obs.Wire)}, tag)
				}
			case "broadcast":
				gres := obs.Res
				c.addCase("C05bc", VL{cfgVal(spec, conn), VN(op.Opcode), VB(payload), VB(key), vbool(goUtf8(payload)), VB(dout), VN(gres), VB(obs.Wire),
					VL{VL{VN(0), VN(obs.CpsCap), VB(obs.CpsBefore), VN(obs.Res), VB(obs.Wire), VB(obs.CpsAfter)}}}, tag)
			default:
				c.addCase("C05w", VL{cfgVal(spec, conn), VN(0), VN(obs.CpsCap), VB(obs.CpsBefore), VN(op.Opcode), slicesVal(op.Slices), VB(key),
					vbool(goUtf8(payload)), VB(dout), VN(obs.Res), VB(obs.Wire), VB(obs.CpsAfter)}, tag)
			}
			c.count(tag+fmt.Sprintf("%x", head(payload, 32)), len(obs.Wire) > 0, "api="+op.API, "lenclass="+lenClass(len(payload)), fmt.Sprintf("result=%d", obs.Res), fmt.Sprintf("compressed=%v", dout != nil))
			if step == 9 {
				c.sample(replay)
			}
			if len(pool) < 1<<16 {
				pool = append(pool, head(payload, 4096)...)
			}
		}
		for li, n := range lengths {
			api := apis[(li+si)%len(apis)]
			opc := 1 + (li+si)%2
			if api == "string" {
				opc = 1
			}
			var p []byte
			if opc == 1 {
				p = textPayload(c, n, pool)
			} else {
				p = randBytes(c.Rng, n)
				if len(pool) > 300 && n > 300 {
					copy(p[n/3:], pool[:200]) // binary payloads repeat earlier traffic too
				}
			}
			k := 1
			if api == "writev" || api == "writevasync" {
				k = 1 + c.Rng.Intn(4)
			}
			send(sendOp{API: api, Opcode: opc, Slices: splitSlices(c, p, k)}, "")
			// interleave control frames that carry payloads repeating the data (they must not enter the window)
			if li%3 == 0 {
				cp := head(p, c.Rng.Intn(126))
				send(sendOp{API: "ping", Opcode: 9, Slices: [][]byte{cp}}, "ctl")
				send(sendOp{API: "pong", Opcode: 10, Slices: [][]byte{cp}}, "ctl")
			}
		}
		send(sendOp{API: "writev", Opcode: 1, Slices: [][]byte{[]byte("中")[:2], []byte("中")[2:]}}, "split-codepoint")
		send(sendOp{API: "message", Opcode: 2, Slices: [][]byte{{0xff, 0xfe}}}, "binary-not-checked")
		// streamed sends: reader chunkings
		fileData := [][]int{{}, {0}, {1}, {0, 5}, {0, 0, 3}, {5, 0, 7}, {131072}, {131072, 131072}, {131073}, {70000, 70000, 1}, {1, 1, 1, 1}, {300000}}
		for fi, chunks := range fileData {
			for _, mode := range []string{"sep", "with"} {
				if !c.quick() || (fi+si)%2 == 0 || mode == "sep" {
					var cs [][]byte
					for _, n := range chunks {
						cs = append(cs, textPayload(c, n, pool))
					}
					send(sendOp{API: "file", Opcode: 1 + fi%2, Reader: newChunkReader(cs, mode)}, "chunks="+fmt.Sprint(chunks)+" "+mode)
				}
			}
		}
		// streamed sends from the standard library's readers, which know their length (a library may take shortcuts for
		// short ones): sizes around the compression threshold and the control-frame limit
		for _, n := range []int{0, 1, 100, 125, 126, 511, 512, 513, 5000} {
			pl := textPayload(c, n, nil)
			send(sendOp{API: "file", Opcode: 1, Slices: [][]byte{pl}, StdReader: bytes.NewReader(pl)}, fmt.Sprintf("bytes.Reader len=%d", n))
			send(sendOp{API: "file", Opcode: 2, Slices: [][]byte{pl}, StdReader: bytes.NewBuffer(append([]byte(nil), pl...))}, fmt.Sprintf("bytes.Buffer len=%d", n))
			send(sendOp{API: "file", Opcode: 1, Slices: [][]byte{pl}, StdReader: strings.NewReader(string(pl))}, fmt.Sprintf("strings.Reader len=%d", n))
		}
		// directed histories.  (h1) frames that go out UNCOMPRESSED through a Broadcaster (a ping, a data payload below the
		// threshold) followed by a message that repeats their content: nothing of them may be in the sender's LZ77 history
		{
			hb := []byte("heartbeat " + string(textPayload(c, 90, nil)))
			small := []byte("status: " + string(textPayload(c, 40, nil)))
			send(sendOp{API: "broadcast", Opcode: 9, Slices: [][]byte{hb}}, "h1-broadcast-ping")
			send(sendOp{API: "broadcast", Opcode: 1, Slices: [][]byte{small}}, "h1-broadcast-small")
			rep := append(append(append([]byte("last "), hb...), small...), hb...)
			send(sendOp{API: "message", Opcode: 1, Slices: [][]byte{rep}}, "h1-repeat")
			send(sendOp{API: "broadcast", Opcode: 1, Slices: [][]byte{append([]byte("again "), rep...)}}, "h1-repeat-broadcast")
		}
		// (h2) redundancy further back than a small negotiated window but well inside 32 KiB, through every path that owns a
		// compressor (the pooled one, the streaming one): a back-reference beyond the window the peer keeps is undecodable there
		{
			a := randBytes(c.Rng, 400)
			far := append(append(append([]byte{}, a...), randBytes(c.Rng, 6000)...), a...)
			send(sendOp{API: "message", Opcode: 2, Slices: [][]byte{far}}, "h2-far-message")
			send(sendOp{API: "file", Opcode: 2, Reader: newChunkReader([][]byte{far[:3000], far[3000:]}, "sep")}, "h2-far-file")
			send(sendOp{API: "file", Opcode: 2, Reader: newChunkReader([][]byte{far}, "with")}, "h2-far-file-again")
			send(sendOp{API: "broadcast", Opcode: 2, Slices: [][]byte{far}}, "h2-far-broadcast")
		}
		// (h3) a streamed send whose reader is slow between two chunks while other goroutines write: whatever the
		// schedule, the streamed message's frames stay together (RFC 6455 5.4: no other data frame between the fragments)
		c05StreamWithIntruders(c, si, spec)
		// content that must be rejected: a rejected call also fails the connection (emitError), so each on a fresh one
		rejects := []sendOp{
			{API: "message", Opcode: 1, Slices: [][]byte{{0xff, 0xfe, 'a'}}},
			{API: "writev", Opcode: 1, Slices: [][]byte{[]byte("ok"), {0xc0, 0x80}}},
			{API: "async", Opcode: 1, Slices: [][]byte{[]byte("中")[:2]}},
			{API: "message", Opcode: 2, Slices: [][]byte{make([]byte, 1001)}},
			{API: "broadcast", Opcode: 2, Slices: [][]byte{make([]byte, 1001)}},
			{API: "file", Opcode: 2, Reader: newChunkReader([][]byte{randBytes(c.Rng, 10)}, "fail")},
			{API: "file", Opcode: 2, Reader: newChunkReader([][]byte{make([]byte, 131072), make([]byte, 131072), []byte("x")}, "fail")},
			{API: "file", Opcode: 2, Reader: newChunkReader([][]byte{randBytes(c.Rng, 500), randBytes(c.Rng, 1500)}, "sep")},
		}
		for ri, rop := range rejects {
			if (rop.Opcode == 2 && rop.API != "file" && spec.WLimit == 0) || (rop.Opcode == 1 && !spec.Utf8) {
				continue
			}
			send(rop, fmt.Sprintf("reject-%d", ri))
		}
		if closed, _ := tap.isClosed(); closed {
			if err := reopen(); err != nil {
				return err
			}
		}
		_ = conn.WriteClose(1000, nil)
		// after close: every API is rejected without touching the wire (also part of C06)
		for _, api := range []string{"message", "writev", "async", "file", "broadcast", "ping"} {
			op := sendOp{API: api, Opcode: 2, Slices: [][]byte{[]byte("late")}}
			if api == "file" {
				op.Reader = newChunkReader([][]byte{[]byte("late")}, "sep")
			}
			if api == "ping" {
				op.Opcode = 9
			}
			before := tap.numWrites()
			obs := doSend(conn, tap, op)
			if tap.numWrites() != before || (obs.Res != 1 && !(api == "broadcast" && obs.Res == 0)) {
				c.oracleFail(fmt.Sprintf("write through %s after close returned %d and wrote %d bytes", api, obs.Res, len(obs.Wire)), "write-after-close", map[string]any{"api": api, "spec": fmt.Sprintf("%+v", spec)})
			}
			c.count(fmt.Sprintf("late %d %s", si, api), false, "api="+api+"-after-close")
		}
		c05ReadLoopOutput(c, si, spec)
	}
	headerLengthSweep(c)
	return nil
}

// c05ReadLoopOutput: what the READ side of gws writes (the reply to a peer Close, the Close frame after a violation by
// the peer or after a transport fault with a long error text) must parse like everything else.
func c05ReadLoopOutput(c *Ctx, si int, spec connSpec) {
	m := spec.Server
	long := make([]byte, 300)
	for i := range long {
		long[i] = byte('a' + i%26)
	}
	type scen struct {
		name    string
		stream  []byte
		readErr error
	}
	scens := []scen{
		{"peer-close-long-reason", encodeFrame(frameSpec{Fin: true, Opcode: 8, Masked: m, Key: [4]byte{3, 1, 4, 1}, Payload: append([]byte{0x0f, 0xa0}, long[:123]...), DeclLen: -1}), nil},
		{"peer-close-1000", dataFrame(8, true, m, []byte{0x03, 0xe8}), nil},
		{"rsv2", encodeFrame(frameSpec{Fin: true, Rsv2: true, Opcode: 2, Masked: m, Payload: []byte("x"), DeclLen: -1}), nil},
		{"bad-opcode", encodeFrame(frameSpec{Fin: true, Opcode: 5, Masked: m, Payload: []byte("x"), DeclLen: -1}), nil},
		{"invalid-utf8", dataFrame(1, true, m, []byte{0xff, 0xfe}), nil},
		{"transport-error-long-text", dataFrame(2, true, m, []byte("before the fault")), errors.New(string(long))},
		{"transport-error-126", nil, errors.New(string(long[:126]))},
		{"transport-error-123", nil, errors.New(string(long[:123]))},
	}
	for _, sc := range scens {
		h := &recHandler{}
		conn, tap, err := spec.open(h)
		if err != nil {
			panic(err)
		}
		if sc.stream != nil {
			tap.feed(sc.stream)
		}
		if sc.readErr != nil {
			tap.mu.Lock()
			tap.failRead, tap.failReadErr = tap.nRead, sc.readErr
			if sc.stream != nil {
				tap.failRead++
			}
			tap.mu.Unlock()
		} else {
			tap.setEOF()
		}
		tag := fmt.Sprintf("spec=%d server=%v read-loop output %s", si, spec.Server, sc.name)
		replay := map[string]any{"spec": fmt.Sprintf("%+v", spec), "scenario": sc.name}
		if !runWithTimeout(10*time.Second, conn.ReadLoop) {
			c.oracleFail("read loop did not return ["+tag+"]", "read-hang", replay)
			continue
		}
		w := tap.written()
		replay["wire"] = fmt.Sprintf("%x", head(w, 160))
		fs, rest, perr := parseFrames(w)
		switch {
		case perr != nil || len(rest) != 0:
			c.oracleFail(fmt.Sprintf("bytes written by the read loop are not whole frames (%v, %d trailing) [%s]", perr, len(rest), tag), "undecodable", replay)
		default:
			for i, f := range fs {
				if p := wfOutbound(f, spec.Server); p != "" {
					c.oracleFail(fmt.Sprintf("frame %d written by the read loop: %s [%s]", i, p, tag), "frame-not-wf", replay)
				}
			}
		}
		c.count(tag, len(w) > 0, "api=readloop-"+sc.name)
	}
}

func head(b []byte, n int) []byte {
	if len(b) > n {
		return b[:n]
	}
	return b
}

func newChunkReader(chunks [][]byte, mode string) *chunkReader {
	r := &chunkReader{mode: mode}
	for _, ch := range chunks {
		r.chunks = append(r.chunks, append([]byte(nil), ch...))
	}
	r.orig = append([][]byte(nil), r.chunks...)
	return r
}

// gatedReader returns its chunks one per Read; before chunk k (k >= 1) it signals `between` and waits for `resume`.
type gatedReader struct {
	chunks  [][]byte
	i       int
	between chan struct{}
	resume  chan struct{}
	stalled bool
}

func (g *gatedReader) Read(p []byte) (int, error) {
	if g.i >= len(g.chunks) {
		return 0, io.EOF
	}
	if g.i == 1 && !g.stalled {
		g.stalled = true
		close(g.between)
		select {
		case <-g.resume:
		case <-time.After(5 * time.Second):
		}
	}
	n := copy(p, g.chunks[g.i])
	g.chunks[g.i] = g.chunks[g.i][n:]
	if len(g.chunks[g.i]) == 0 {
		g.i++
	}
	return n, nil
}

func c05StreamWithIntruders(c *Ctx, si int, spec connSpec) {
	if spec.WLimit > 0 && spec.WLimit < 200000 {
		return // the segments of this scenario are above that write limit: the send is (rightly) refused at its first segment
	}
	for _, intruder := range []string{"message", "writev", "async", "broadcast", "file"} {
		conn, tap, err := spec.open(&recHandler{})
		if err != nil {
			c.oracleFail("open: "+err.Error(), "setup", nil)
			return
		}
		tag := fmt.Sprintf("spec=%d server=%v pmd=%v streamed send with a slow reader, concurrent %s", si, spec.Server, spec.PMD, intruder)
		// chunk sizes straddle the 128 KiB segment size, so that frames have gone out before the reader stalls
		gr := &gatedReader{chunks: [][]byte{randBytes(c.Rng, 140000), randBytes(c.Rng, 140000), randBytes(c.Rng, 5000)}, between: make(chan struct{}), resume: make(chan struct{})}
		fileDone := make(chan error, 1)
		nb := tap.numWrites()
		go func() { fileDone <- conn.WriteFile(gws.OpcodeBinary, gr) }()
		select {
		case <-gr.between:
		case <-time.After(5 * time.Second):
			c.oracleFail("the streamed send never asked its reader for the second chunk ["+tag+"]", "stream-hang", map[string]any{"tag": tag})
			continue
		}
		otherDone := make(chan struct{})
		go func() {
			defer close(otherDone)
			// (rawSend: no snapshot of the compression window first - that accessor takes the connection's write lock)
			rawSend(conn, sendOp{API: intruder, Opcode: 2, Slices: [][]byte{[]byte("written by another goroutine")},
				Reader: map[bool]*chunkReader{true: newChunkReader([][]byte{[]byte("streamed by another goroutine")}, "sep")}[intruder == "file"]})
		}()
		select { // give the other writer time to reach (and, if nothing stops it, pass) the write lock
		case <-otherDone:
		case <-time.After(30 * time.Millisecond):
		}
		close(gr.resume)
		var ferr error
		select {
		case ferr = <-fileDone:
		case <-time.After(10 * time.Second):
			c.oracleFail("the streamed send did not return ["+tag+"]", "stream-hang", map[string]any{"tag": tag})
			continue
		}
		select {
		case <-otherDone:
		case <-time.After(10 * time.Second):
			c.oracleFail("the concurrent write did not return ["+tag+"]", "stream-hang", map[string]any{"tag": tag})
			continue
		}
		fs, rest, perr := parseFrames(joinSlices(tap.writeCalls()[nb:]))
		problem := ""
		if perr != nil || len(rest) != 0 {
			problem = "the bytes on the wire are not whole frames"
		} else if _, p := groupMessages(fs); p != "" {
			problem = p
		}
		if ferr != nil {
			problem = "the streamed send failed: " + ferr.Error()
		}
		if problem != "" {
			var seq []string
			for _, f := range fs {
				seq = append(seq, fmt.Sprintf("op%d/fin=%v/%d", f.Opcode, f.Fin, len(f.Payload)))
			}
			c.oracleFail(fmt.Sprintf("a streamed message is not one run of frames on the wire: %s; frames %v [%s]", problem, seq, tag), "outbound-malformed", map[string]any{"tag": tag, "frames": seq})
		}
		_ = tap.Close()
		c.count(tag, true, "api=file-with-concurrent-"+intruder)
	}
}
