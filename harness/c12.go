package main

import (
	"bufio"
	"bytes"
	"fmt"
	"math"
	"math/rand"
	"net/http"
	"strconv"
	"strings"
	"time"

	"github.com/lxzan/gws"
)

func init() { runners["C12"] = runC12 }

// ---------------------------------------------------------------------------------------------
// settings matrix

type c12Setting struct {
	Enabled, SCT, CCT bool
	SB, CB            int
	Threshold, Level  int
}

var c12Bits = []int{-1, 0, 7, 8, 9, 10, 11, 12, 13, 14, 15, 16}

// 2^3 flags x 12 x 12 window-bit values = 1152 settings; threshold/level rotate deterministically
// (they must not influence agreement, but they are carried through normalisation and setThreshold).
func c12Settings() []c12Setting {
	thr := []int{0, 512, 1, -7, 4096}
	lvl := []int{-2, -2, 0, -2, -2, -2, 1, -2, -2} // mostly HuffmanOnly: NewUpgrader builds a flate writer per call, this level is the cheapest
	var out []c12Setting
	for f := 0; f < 8; f++ {
		for _, sb := range c12Bits {
			for _, cb := range c12Bits {
				i := len(out)
				out = append(out, c12Setting{f&4 != 0, f&2 != 0, f&1 != 0, sb, cb, thr[i%len(thr)], lvl[(i/5)%len(lvl)]})
			}
		}
	}
	return out
}

func (s c12Setting) pd() gws.PermessageDeflate {
	return gws.PermessageDeflate{Enabled: s.Enabled, ServerContextTakeover: s.SCT, ClientContextTakeover: s.CCT,
		ServerMaxWindowBits: s.SB, ClientMaxWindowBits: s.CB, Threshold: s.Threshold, Level: s.Level, PoolSize: 1}
}
func (s c12Setting) String() string {
	return fmt.Sprintf("{en=%v sct=%v cct=%v sb=%d cb=%d thr=%d lvl=%d}", s.Enabled, s.SCT, s.CCT, s.SB, s.CB, s.Threshold, s.Level)
}

func pdV(p gws.PermessageDeflate) VL {
	return VL{vbool(p.Enabled), vbool(p.ServerContextTakeover), vbool(p.ClientContextTakeover),
		VZ(p.ServerMaxWindowBits), VZ(p.ClientMaxWindowBits), VZ(p.Threshold), VZ(p.Level)}
}

func pdStr(p gws.PermessageDeflate) string {
	return fmt.Sprintf("{en=%v sct=%v cct=%v sb=%d cb=%d thr=%d}", p.Enabled, p.ServerContextTakeover, p.ClientContextTakeover,
		p.ServerMaxWindowBits, p.ClientMaxWindowBits, p.Threshold)
}

// what one handshake produced (function level or real)
type c12Outcome struct {
	SNorm, SV, CNorm, CL gws.PermessageDeflate
	Offer, Resp          string
}

func (o c12Outcome) same(p c12Outcome) bool { return o == p }

// function-level handshake: the six functions composed the way client.go / upgrader.go compose them.
// The server half and the client's second half are memoised per (setting, header) - they are pure.
type c12SrvKey struct {
	s     c12Setting
	offer string
}
type c12CliKey struct {
	c    c12Setting
	resp string
}
type c12Func struct {
	cnorm   map[c12Setting]gws.PermessageDeflate
	offer   map[c12Setting]string
	srv     map[c12SrvKey][2]gws.PermessageDeflate
	resp    map[gws.PermessageDeflate]string
	cli     map[c12CliKey]gws.PermessageDeflate
	evalSrv int
	evalCli int
}

func newC12Func() *c12Func {
	return &c12Func{cnorm: map[c12Setting]gws.PermessageDeflate{}, offer: map[c12Setting]string{}, srv: map[c12SrvKey][2]gws.PermessageDeflate{},
		resp: map[gws.PermessageDeflate]string{}, cli: map[c12CliKey]gws.PermessageDeflate{}}
}

func (f *c12Func) pair(s, c c12Setting) c12Outcome {
	var o c12Outcome
	cn, ok := f.cnorm[c]
	if !ok {
		cn, _ = gws.VerifClientPD(&gws.ClientOption{PermessageDeflate: c.pd()}, "")
		f.cnorm[c] = cn
		if cn.Enabled { // client.go request()
			f.offer[c] = gws.VerifGenRequestHeader(cn)
		}
	}
	o.CNorm, o.Offer = cn, f.offer[c]
	sk := c12SrvKey{s, o.Offer}
	sr, ok := f.srv[sk]
	if !ok {
		a, b := gws.VerifServerPD(&gws.ServerOption{PermessageDeflate: s.pd()}, o.Offer)
		sr = [2]gws.PermessageDeflate{a, b}
		f.srv[sk] = sr
		f.evalSrv++
	}
	o.SNorm, o.SV = sr[0], sr[1]
	if o.SV.Enabled { // upgrader.go doUpgradeFromConn
		r, ok := f.resp[o.SV]
		if !ok {
			r = gws.VerifGenResponseHeader(o.SV)
			f.resp[o.SV] = r
		}
		o.Resp = r
	}
	ck := c12CliKey{c, o.Resp}
	cl, ok := f.cli[ck]
	if !ok {
		_, cl = gws.VerifClientPD(&gws.ClientOption{PermessageDeflate: c.pd()}, o.Resp)
		f.cli[ck] = cl
		f.evalCli++
	}
	o.CL = cl
	return o
}

// The property's own oracle, written from the statement: returns "" or what is violated.
func c12Oracle(s, c c12Setting, sv, cl gws.PermessageDeflate) (string, string) {
	want := s.Enabled && c.Enabled
	if sv.Enabled != want || cl.Enabled != want {
		return fmt.Sprintf("compression on: server conn %v, client conn %v, statement demands %v (both enabled it: %v)", sv.Enabled, cl.Enabled, want, want), "enabled"
	}
	if !want {
		return "", ""
	}
	if sv.ServerContextTakeover != cl.ServerContextTakeover || sv.ClientContextTakeover != cl.ClientContextTakeover {
		return fmt.Sprintf("context takeover differs: server conn %s, client conn %s", pdStr(sv), pdStr(cl)), "takeover-disagree"
	}
	if sv.ServerContextTakeover != (s.SCT && c.SCT) || sv.ClientContextTakeover != (s.CCT && c.CCT) {
		return fmt.Sprintf("a direction keeps context iff neither side declined: got server-takeover=%v client-takeover=%v, settings server %s client %s",
			sv.ServerContextTakeover, sv.ClientContextTakeover, s, c), "takeover-rule"
	}
	if sv.ServerMaxWindowBits != cl.ServerMaxWindowBits || sv.ClientMaxWindowBits != cl.ClientMaxWindowBits {
		return fmt.Sprintf("window bits differ: server conn %s, client conn %s", pdStr(sv), pdStr(cl)), "bits-disagree"
	}
	for _, b := range []int{sv.ServerMaxWindowBits, sv.ClientMaxWindowBits, cl.ServerMaxWindowBits, cl.ClientMaxWindowBits} {
		if b < 8 || b > 15 {
			return fmt.Sprintf("window bits %d outside 8..15: server conn %s, client conn %s", b, pdStr(sv), pdStr(cl)), "bits-range"
		}
	}
	// C12_threshold_zero_under_takeover (needed by C02): a side that keeps its own sending context compresses everything
	if sv.ServerContextTakeover && sv.Threshold != 0 {
		return fmt.Sprintf("server keeps context but its threshold is %d", sv.Threshold), "threshold"
	}
	if cl.ClientContextTakeover && cl.Threshold != 0 {
		return fmt.Sprintf("client keeps context but its threshold is %d", cl.Threshold), "threshold"
	}
	return "", ""
}

func (c *Ctx) c12Record(kind string, s, cs c12Setting, o c12Outcome) {
	tag := fmt.Sprintf("%s server=%s client=%s", kind, s, cs)
	c.addCase("C12pair", VL{pdV(s.pd()), pdV(cs.pd()), pdV(o.SNorm), pdV(o.SV), pdV(o.CNorm), pdV(o.CL), VB(o.Offer), VB(o.Resp)}, tag)
}

func (c *Ctx) c12Check(kind string, s, cs c12Setting, o c12Outcome) bool {
	if what, sig := c12Oracle(s, cs, o.SV, o.CL); what != "" {
		c.oracleFail(fmt.Sprintf("[%s] server settings %s, client settings %s: %s (offer %q, response %q)", kind, s, cs, what, o.Offer, o.Resp),
			"c12-"+sig, map[string]any{"kind": kind, "server": s, "client": cs, "offer": o.Offer, "response": o.Resp,
				"server_conn": pdStr(o.SV), "client_conn": pdStr(o.CL)})
		return false
	}
	return true
}

// real gws-to-gws handshake over the in-memory transport
func c12Real(s, cs c12Setting) (c12Outcome, error) {
	var o c12Outcome
	sopt := &gws.ServerOption{PermessageDeflate: s.pd()}
	copt := &gws.ClientOption{PermessageDeflate: cs.pd()}
	sc, cc, stap, ctap, err := gwsPair(sopt, copt, &recHandler{}, &recHandler{})
	if err != nil {
		return o, err
	}
	o.SV, o.CL = sc.VerifPD(), cc.VerifPD()
	req, err := http.ReadRequest(bufio.NewReader(bytes.NewReader(ctap.written())))
	if err != nil {
		return o, fmt.Errorf("client tap: %v", err)
	}
	o.Offer = req.Header.Get("Sec-WebSocket-Extensions")
	resp, err := http.ReadResponse(bufio.NewReader(bytes.NewReader(stap.written())), req)
	if err != nil {
		return o, fmt.Errorf("server tap: %v", err)
	}
	o.Resp = resp.Header.Get("Sec-WebSocket-Extensions")
	stap.Close()
	ctap.Close()
	return o, nil
}

func zeroPool(o c12Outcome) c12Outcome {
	o.SNorm.PoolSize, o.SV.PoolSize, o.CNorm.PoolSize, o.CL.PoolSize = 0, 0, 0, 0
	return o
}

// ---------------------------------------------------------------------------------------------
// parser robustness: parameter lists, permuted and padded

type c12Param struct {
	Key string
	Val *string
}

func (p c12Param) String() string {
	if p.Val == nil {
		return p.Key
	}
	return p.Key + "=" + *p.Val
}

// token-level meaning of a parameter list, written from the statement / RFC 7692 with the library's
// documented leniencies (value 0 or unparsable = 15, duplicates = minimum, below 8 = 8); order-free by construction.
func c12ParamOracle(ps []c12Param) (sct, cct bool, sb, cb int, defined bool) {
	sct, cct, sb, cb, defined = true, true, 15, 15, true
	val := func(v string) (int, bool) {
		// plain decimal with optional sign, inside int64: anything else is left to the model comparison
		if len(v) == 0 || len(v) > 18 {
			return 0, false
		}
		n, err := strconv.ParseInt(v, 10, 64)
		if err != nil {
			return 0, false
		}
		return int(n), true
	}
	for _, p := range ps {
		switch p.Key {
		case "server_no_context_takeover":
			sct = false
		case "client_no_context_takeover":
			cct = false
		case "server_max_window_bits", "client_max_window_bits":
			if p.Val == nil {
				continue
			}
			n, ok := val(*p.Val)
			if !ok {
				defined = false
				continue
			}
			if n == 0 {
				n = 15
			}
			if p.Key[0] == 's' {
				sb = min(sb, n)
			} else {
				cb = min(cb, n)
			}
		}
	}
	sb, cb = max(sb, 8), max(cb, 8)
	return
}

const c12WS = " \t\n\v\f\r"

func c12Pad(r *rand.Rand, mode int) string {
	switch mode {
	case 0:
		return ""
	case 1:
		return " "
	}
	n := r.Intn(4)
	b := make([]byte, n)
	for i := range b {
		b[i] = c12WS[r.Intn(len(c12WS))]
	}
	return string(b)
}

func c12RenderPadded(r *rand.Rand, ps []c12Param, emptySegs bool) string {
	var b strings.Builder
	for i, p := range ps {
		if i > 0 {
			b.WriteString(";")
			if emptySegs && r.Intn(5) == 0 {
				b.WriteString(c12Pad(r, 2) + ";")
			}
		}
		b.WriteString(c12Pad(r, r.Intn(3)))
		b.WriteString(p.String())
		b.WriteString(c12Pad(r, r.Intn(3)))
	}
	if emptySegs && r.Intn(4) == 0 {
		b.WriteString(";" + c12Pad(r, 2))
	}
	return b.String()
}

func c12Canonical(ps []c12Param) string {
	var ss []string
	for _, p := range ps {
		ss = append(ss, p.String())
	}
	return strings.Join(ss, "; ")
}

func sp(s string) *string { return &s }

func c12RandParams(r *rand.Rand) []c12Param {
	var ps []c12Param
	if r.Intn(8) != 0 {
		ps = append(ps, c12Param{"permessage-deflate", nil})
	}
	bitsVal := func() string {
		switch r.Intn(12) {
		case 0:
			return []string{"0", "7", "16", "-3", "+9", "08", "99", "255", "-0"}[r.Intn(9)]
		case 1:
			return strconv.Itoa(r.Intn(40) - 10)
		}
		return strconv.Itoa(8 + r.Intn(8))
	}
	n := r.Intn(6)
	for i := 0; i < n; i++ {
		switch r.Intn(7) {
		case 0:
			ps = append(ps, c12Param{"server_no_context_takeover", nil})
		case 1:
			ps = append(ps, c12Param{"client_no_context_takeover", nil})
		case 2:
			ps = append(ps, c12Param{"server_max_window_bits", sp(bitsVal())})
		case 3:
			ps = append(ps, c12Param{"client_max_window_bits", sp(bitsVal())})
		case 4:
			ps = append(ps, c12Param{"client_max_window_bits", nil})
		case 5:
			ps = append(ps, c12Param{[]string{"x-unknown", "server_max_window_bit", "Server_no_context_takeover", "client_max_window_bits2"}[r.Intn(4)], nil})
		case 6:
			ps = append(ps, c12Param{"x-other", sp(strconv.Itoa(r.Intn(20)))})
		}
	}
	return ps
}

func c12NegTuple(p gws.PermessageDeflate) [4]int {
	b := func(x bool) int {
		if x {
			return 1
		}
		return 0
	}
	return [4]int{b(p.ServerContextTakeover), b(p.ClientContextTakeover), p.ServerMaxWindowBits, p.ClientMaxWindowBits}
}

// ---------------------------------------------------------------------------------------------

func runC12(c *Ctx) error {
	settings := c12Settings()
	n := len(settings)
	fn := newC12Func()
	c.Sum.Rule = "C12: (1) all 1152x1152 (server,client) settings pairs [2^3 flags x window bits {-1,0,7,8..15,16}^2 per side] through the accessors against the statement's oracle, a deterministic sample + diagonal/edge pairs recorded for the Coq model; " +
		"(2) real gws-to-gws handshakes over the in-memory transport, both conns' parameters and both headers read back; (3) random parameter lists permuted / padded with ASCII white space through permessageNegotiation; " +
		"(4) header generation for in- and out-of-range integers, one-sided negotiation on foreign extension strings. non-trivial = compression enabled on both sides (pairs) or a list with at least two parameters (parser); distinct by full input"

	t0 := time.Now()
	phase := func(name string) {
		c.Sum.Notes = append(c.Sum.Notes, fmt.Sprintf("phase %s: %.1fs", name, time.Since(t0).Seconds()))
		t0 = time.Now()
	}
	// (1) exhaustive matrix against the oracle
	fails := 0
	for i := 0; i < n; i++ {
		for j := 0; j < n; j++ {
			o := fn.pair(settings[i], settings[j])
			if fails < 40 && !c.c12Check("function-level", settings[i], settings[j], o) {
				fails++
			}
		}
	}
	c.Sum.Evaluations += n * n
	c.Sum.Distribution["matrix.pairs"] = n * n
	c.Sum.Distribution["matrix.server-side evaluations (distinct setting x offer)"] = fn.evalSrv
	c.Sum.Distribution["matrix.client-side evaluations (distinct setting x response)"] = fn.evalCli
	c.Sum.Notes = append(c.Sum.Notes, fmt.Sprintf("matrix: %d pairs evaluated through VerifClientPD/VerifGenRequestHeader/VerifServerPD/VerifGenResponseHeader/VerifClientPD (pure halves memoised per (setting, header))", n*n))

	phase("matrix")
	// cases for the model: diagonal, edge rows/columns, deterministic sample
	type pr struct{ i, j int }
	seen := map[pr]bool{}
	var pairs []pr
	add := func(i, j int) {
		if !seen[pr{i, j}] {
			seen[pr{i, j}] = true
			pairs = append(pairs, pr{i, j})
		}
	}
	idx := func(en, sct, cct bool, sb, cb int) int {
		for k, s := range settings {
			if s.Enabled == en && s.SCT == sct && s.CCT == cct && s.SB == sb && s.CB == cb {
				return k
			}
		}
		panic("setting")
	}
	edges := []int{idx(true, true, true, 15, 15), idx(true, false, false, 8, 8), idx(true, true, true, 0, 0), idx(true, true, false, 12, 9),
		idx(false, true, true, 15, 15), idx(true, false, true, 16, -1), idx(true, true, true, 7, 16)}
	for i := 0; i < n; i++ {
		add(i, i)
		for _, e := range edges {
			add(i, e)
			add(e, i)
		}
	}
	nsample := 3000
	if !c.quick() {
		nsample = 150000
	}
	for k := 0; k < nsample; k++ {
		// enabled settings are the upper half of the index range: bias towards both enabled
		i, j := c.Rng.Intn(n), c.Rng.Intn(n)
		if k%4 != 0 {
			i, j = n/2+c.Rng.Intn(n/2), n/2+c.Rng.Intn(n/2)
		}
		add(i, j)
	}
	for _, p := range pairs {
		s, cs := settings[p.i], settings[p.j]
		o := zeroPool(fn.pair(s, cs))
		c.c12Record("function-level", s, cs, o)
		both := s.Enabled && cs.Enabled
		c.count(fmt.Sprintf("pair %d %d", p.i, p.j), both, fmt.Sprintf("pairs.recorded both-enabled=%v", both))
		if both && o.SV.Enabled && len(c.Sum.Samples) < 2 && s.SB >= 8 && s.SB < 15 && cs.CB >= 8 && cs.CB < 15 && s.SCT != cs.SCT {
			c.sample(map[string]any{"server": s.String(), "client": cs.String(), "offer": o.Offer, "response": o.Resp, "server_conn": pdStr(o.SV), "client_conn": pdStr(o.CL)})
		}
	}

	phase("record pairs")
	// (2) real handshakes
	nreal := 3000
	if !c.quick() {
		nreal = 60000
	}
	var realPairs []pr
	for _, e := range edges {
		for _, e2 := range edges {
			realPairs = append(realPairs, pr{e, e2})
		}
	}
	// client settings walked with a stride coprime to 1152 (every class of client setting is reached quickly),
	// server settings random, 4 of 5 with compression enabled
	walk := c.Rng.Intn(n)
	for len(realPairs) < nreal {
		walk = (walk + 605) % n
		i := c.Rng.Intn(n)
		if len(realPairs)%5 != 0 {
			i = n/2 + c.Rng.Intn(n/2)
		}
		realPairs = append(realPairs, pr{i, walk})
	}
	for _, p := range realPairs {
		s, cs := settings[p.i], settings[p.j]
		o, err := c12Real(s, cs)
		if err != nil {
			c.oracleFail(fmt.Sprintf("gws-to-gws handshake failed for server %s client %s: %v", s, cs, err), "c12-handshake-error",
				map[string]any{"server": s, "client": cs, "error": err.Error()})
			continue
		}
		f := zeroPool(fn.pair(s, cs))
		o.SNorm, o.CNorm = f.SNorm, f.CNorm // normalised options: not observable on a connection, taken from the accessors
		o = zeroPool(o)
		c.c12Check("real-handshake", s, cs, o)
		if !o.same(f) {
			c.oracleFail(fmt.Sprintf("real handshake and function-level composition differ for server %s client %s: real %+v, functions %+v", s, cs, o, f),
				"c12-handshake-vs-functions", map[string]any{"server": s, "client": cs, "real": fmt.Sprintf("%+v", o), "functions": fmt.Sprintf("%+v", f)})
		}
		c.c12Record("real-handshake", s, cs, o)
		both := s.Enabled && cs.Enabled
		c.count(fmt.Sprintf("real %d %d", p.i, p.j), both, fmt.Sprintf("handshakes both-enabled=%v", both))
		if both && len(c.Sum.Samples) < 3 {
			c.sample(map[string]any{"real-handshake": true, "server": s.String(), "client": cs.String(), "offer": o.Offer, "response": o.Resp, "server_conn": pdStr(o.SV), "client_conn": pdStr(o.CL)})
		}
	}

	// (2b) one long-lived Upgrader serves a HISTORY of clients with different offers: what each client negotiates depends
	// on the server's configuration and on its own offer only, never on the clients before it
	for hi, si := range []int{n - 1, n - 2, n / 2, n/2 + 7, n - 13, 3 * n / 4} {
		s := settings[si]
		if !s.Enabled {
			continue
		}
		up := gws.NewUpgrader(&recHandler{}, &gws.ServerOption{PermessageDeflate: s.pd()})
		var seq []int
		for k := 0; k < 10; k++ {
			seq = append(seq, c.Rng.Intn(n))
		}
		seq = append(seq, 0, n-1, 1, n-1, n/2, n-1)
		for k, ci := range seq {
			cs := settings[ci]
			sc, cc, stap, ctap, err := gwsPairWith(up, &gws.ClientOption{PermessageDeflate: cs.pd()}, &recHandler{})
			if err != nil {
				c.oracleFail(fmt.Sprintf("handshake %d of a history on one Upgrader failed for server %s client %s: %v", k, s, cs, err), "c12-handshake-error", map[string]any{"server": s, "client": cs})
				continue
			}
			f := zeroPool(fn.pair(s, cs))
			got := zeroPool(c12Outcome{SV: sc.VerifPD(), CL: cc.VerifPD()})
			if got.SV != f.SV || got.CL != f.CL {
				c.oracleFail(fmt.Sprintf("client %d of a history of clients on ONE Upgrader (server %s, client %s) negotiated server %s / client %s; the same pair on a fresh Upgrader gives server %s / client %s",
					k, s, cs, pdStr(got.SV), pdStr(got.CL), pdStr(f.SV), pdStr(f.CL)), "c12-history-dependent", map[string]any{"server": s, "client": cs, "position": k})
			}
			stap.Close()
			ctap.Close()
			c.count(fmt.Sprintf("history %d %d %d", hi, k, ci), s.Enabled && cs.Enabled, "handshakes on a long-lived Upgrader")
		}
	}
	// (2c) one long-lived ClientOption dials a HISTORY of servers with different settings: what each handshake negotiates
	// depends on that server's configuration and on the client's configured offer only, never on the servers before it
	for hi, ci := range []int{n - 1, n - 2, n / 2, n/2 + 7, n - 13, 3 * n / 4} {
		cs := settings[ci]
		if !cs.Enabled {
			continue
		}
		copt := &gws.ClientOption{PermessageDeflate: cs.pd()}
		var seq []int
		for k := 0; k < 8; k++ {
			seq = append(seq, c.Rng.Intn(n))
		}
		seq = append(seq, 0, n-1, 1, n-1, n/2, n-1)
		for k, si := range seq {
			s := settings[si]
			up := gws.NewUpgrader(&recHandler{}, &gws.ServerOption{PermessageDeflate: s.pd()})
			sc, cc, stap, ctap, err := gwsPairWith(up, copt, &recHandler{})
			if err != nil {
				c.oracleFail(fmt.Sprintf("handshake %d of a history of dials with one ClientOption failed for server %s client %s: %v", k, s, cs, err), "c12-handshake-error", map[string]any{"server": s, "client": cs})
				continue
			}
			f := zeroPool(fn.pair(s, cs))
			got := zeroPool(c12Outcome{SV: sc.VerifPD(), CL: cc.VerifPD()})
			if got.SV != f.SV || got.CL != f.CL {
				c.oracleFail(fmt.Sprintf("dial %d of a history of dials with ONE ClientOption (server %s, client %s) negotiated server %s / client %s; the same pair with a fresh ClientOption gives server %s / client %s",
					k, s, cs, pdStr(got.SV), pdStr(got.CL), pdStr(f.SV), pdStr(f.CL)), "c12-history-dependent", map[string]any{"server": s, "client": cs, "position": k})
			}
			stap.Close()
			ctap.Close()
			c.count(fmt.Sprintf("dial history %d %d %d", hi, k, si), s.Enabled && cs.Enabled, "handshakes with a long-lived ClientOption")
		}
	}
	phase("real handshakes")
	// (3) parser robustness
	nlists := 1500
	if !c.quick() {
		nlists = 40000
	}
	for k := 0; k < nlists; k++ {
		ps := c12RandParams(c.Rng)
		canon := c12Canonical(ps)
		base := gws.VerifPermessageNegotiation(canon)
		c.addCase("C12parse", VL{VB(canon), pdV(base)}, "parse canonical "+strconv.Quote(canon))
		esct, ecct, esb, ecb, def := c12ParamOracle(ps)
		if def && c12NegTuple(base) != [4]int{b2i(esct), b2i(ecct), esb, ecb} {
			c.oracleFail(fmt.Sprintf("parameter list %q understood as %s, its meaning is sct=%v cct=%v sb=%d cb=%d", canon, pdStr(base), esct, ecct, esb, ecb),
				"c12-param-meaning", map[string]any{"header": canon, "got": pdStr(base)})
		}
		for v := 0; v < 3; v++ {
			qs := append([]c12Param(nil), ps...)
			if v != 1 { // v=1: same order, padding only
				c.Rng.Shuffle(len(qs), func(a, b int) { qs[a], qs[b] = qs[b], qs[a] })
			}
			var variant string
			if v == 0 { // permutation only
				variant = c12Canonical(qs)
			} else {
				variant = c12RenderPadded(c.Rng, qs, v == 2 && k%3 == 0)
			}
			got := gws.VerifPermessageNegotiation(variant)
			if c12NegTuple(got) != c12NegTuple(base) {
				c.oracleFail(fmt.Sprintf("parameter list %q is understood as %s but its reordering/respacing %q as %s", canon, pdStr(base), variant, pdStr(got)),
					"c12-order-whitespace", map[string]any{"canonical": canon, "variant": variant, "canonical_result": pdStr(base), "variant_result": pdStr(got)})
			}
			c.addCase("C12parse", VL{VB(variant), pdV(got)}, "parse variant "+strconv.Quote(variant))
			c.count("parse "+variant, len(ps) >= 2, fmt.Sprintf("parser.variant=%s", []string{"permuted", "padded", "permuted+padded"}[v]), fmt.Sprintf("parser.params=%d", min(len(ps), 6)))
		}
		if k == 7 {
			c.sample(map[string]any{"canonical": canon, "result": pdStr(base)})
		}
	}
	// hand-picked strings: Atoi corner cases (sign, saturation, overflow before a bad byte), white space inside, '=' corner cases
	for _, s := range []string{"", ";", " ; ;", "permessage-deflate", "permessage-deflate;", "server_max_window_bits=", "server_max_window_bits==9",
		"server_max_window_bits=9=9", "client_max_window_bits=+10", "client_max_window_bits=-10", "client_max_window_bits=+", "client_max_window_bits=-",
		"client_max_window_bits=+-9", "client_max_window_bits=9223372036854775807", "client_max_window_bits=9223372036854775808",
		"client_max_window_bits=-9223372036854775808", "client_max_window_bits=-9223372036854775809", "client_max_window_bits=18446744073709551615",
		"client_max_window_bits=18446744073709551616", "client_max_window_bits=-18446744073709551616x", "client_max_window_bits=-18446744073709551615x",
		"client_max_window_bits=99999999999999999999999999x", "server_max_window_bits=-99999999999999999999999999x", "server_max_window_bits=-9x",
		"server_max_window_bits=000000000000000000000000000009", "server_max_window_bits= 9", "server_max_window_bits =9", "server_max_window_bits=\"9\"",
		"server_max_window_bits=9 ", "\tserver_max_window_bits=9\r\n", "server_max_window_bits=1_0", "server_max_window_bits=0x0a", "server_max_window_bits=1e1",
		"server_max_window_bits=10;server_max_window_bits=12;server_max_window_bits=9", "client_max_window_bits;client_max_window_bits=11",
		"server_no_context_takeover=1", "client_no_context_takeover=", "=9", "=", "permessage-deflate; server_max_window_bits=0; client_max_window_bits=00",
		"permessage-deflate, permessage-deflate; client_no_context_takeover", "server_max_window_bits=7", "server_max_window_bits=8", "client_max_window_bits=15", "client_max_window_bits=16"} {
		got := gws.VerifPermessageNegotiation(s)
		c.addCase("C12parse", VL{VB(s), pdV(got)}, "parse hand-picked "+strconv.Quote(s))
		c.count("parse "+s, true, "parser.variant=hand-picked")
	}

	phase("parser")
	// (4) header generation on raw integers (Itoa incl. negatives and the int64 extremes), and each side alone on foreign strings
	genInts := append([]int{}, c12Bits...)
	genInts = append(genInts, -15, 100, 1<<20, math.MaxInt64, math.MinInt64, -1<<40)
	for f := 0; f < 4; f++ {
		for _, sb := range genInts {
			for _, cb := range genInts {
				p := gws.PermessageDeflate{ServerContextTakeover: f&2 != 0, ClientContextTakeover: f&1 != 0, ServerMaxWindowBits: sb, ClientMaxWindowBits: cb}
				rq, rs := gws.VerifGenRequestHeader(p), gws.VerifGenResponseHeader(p)
				c.addCase("C12gen", VL{pdV(p), VB(rq), VB(rs)}, "gen "+pdStr(p))
				c.count("gen "+pdStr(p), true, "gen.headers")
				// round trip oracle on the in-range part: what is rendered is understood as itself
				if sb >= 8 && sb <= 15 && cb >= 8 && cb <= 15 {
					for _, h := range []string{rq, rs} {
						if got := gws.VerifPermessageNegotiation(h); c12NegTuple(got) != c12NegTuple(p) {
							c.oracleFail(fmt.Sprintf("header %q generated for %s is understood as %s", h, pdStr(p), pdStr(got)), "c12-roundtrip",
								map[string]any{"header": h, "pd": pdStr(p), "parsed": pdStr(got)})
						}
					}
				}
			}
		}
	}
	foreign := []string{"", "permessage-deflate", "Permessage-Deflate", "x-permessage-deflate-y; server_max_window_bits=9", "deflate-frame",
		"permessage-deflate; client_max_window_bits; server_max_window_bits=10", "permessage-deflate; client_no_context_takeover; client_max_window_bits=8",
		"permessage-deflate;server_no_context_takeover;server_max_window_bits=7", "foo, permessage-deflate; client_max_window_bits=12",
		"permessage-deflate; server_max_window_bits=15; client_max_window_bits=15", "permessage-deflat; server_no_context_takeover"}
	sideIdx := []int{}
	for k := 0; k < 60; k++ {
		sideIdx = append(sideIdx, c.Rng.Intn(n))
	}
	sideIdx = append(sideIdx, edges...)
	for _, k := range sideIdx {
		st := settings[k]
		for _, ext := range foreign {
			sn, sv := gws.VerifServerPD(&gws.ServerOption{PermessageDeflate: st.pd()}, ext)
			cn, cl := gws.VerifClientPD(&gws.ClientOption{PermessageDeflate: st.pd()}, ext)
			sn.PoolSize, sv.PoolSize, cn.PoolSize, cl.PoolSize = 0, 0, 0, 0
			c.addCase("C12side", VL{VN(1), pdV(st.pd()), VB(ext), pdV(sn), pdV(sv)}, fmt.Sprintf("side server %s ext=%q", st, ext))
			c.addCase("C12side", VL{VN(0), pdV(st.pd()), VB(ext), pdV(cn), pdV(cl)}, fmt.Sprintf("side client %s ext=%q", st, ext))
			c.count(fmt.Sprintf("side %d %s", k, ext), st.Enabled, "side.foreign-extension-strings")
		}
	}
	phase("generators and one-sided")
	return nil
}
