package main

// C16 - UTF-8 is enforced on whole text payloads, in both directions.
//
//  (a) library model validation: Go's utf8.Valid (reached through internal.CheckEncoding) against
//      Model.utf8_valid: exhaustive on short strings, boundary code points, overlongs, surrogates,
//      truncations, each at offsets 0..9 inside ASCII padding (across the 8-byte fast path);
//  (b) write side on real connections (both roles, checking on/off): WriteMessage, WriteString,
//      WriteAsync, Writev, WritevAsync with every split position;
//  (c) read side: crafted inbound messages, unfragmented / fragmented at every position /
//      compressed, and Close frames whose reason is each test string.
//
// The property's own oracle is rfcValid below: written from the RFC 3629 table (decode, then check
// shortest form / surrogates / range); it shares nothing with unicode/utf8.

import (
	"bytes"
	"errors"
	"fmt"
	"net/http"
	"time"
	"unicode/utf8"

	"github.com/lxzan/gws"
)

func init() { runners["C16"] = runC16 }

// ---------------------------------------------------------------------------------------------
// independent RFC 3629 oracle

func rfcValid(b []byte) bool {
	for i := 0; i < len(b); {
		c := b[i]
		var n int
		var cp, min uint32
		switch {
		case c&0x80 == 0:
			i++
			continue
		case c&0xE0 == 0xC0:
			n, cp, min = 1, uint32(c&0x1F), 0x80
		case c&0xF0 == 0xE0:
			n, cp, min = 2, uint32(c&0x0F), 0x800
		case c&0xF8 == 0xF0:
			n, cp, min = 3, uint32(c&0x07), 0x10000
		default:
			return false // 10xxxxxx as a first octet, or 11111xxx
		}
		if i+n >= len(b) {
			return false // truncated
		}
		for k := 1; k <= n; k++ {
			cc := b[i+k]
			if cc&0xC0 != 0x80 {
				return false
			}
			cp = cp<<6 | uint32(cc&0x3F)
		}
		if cp < min || cp > 0x10FFFF || (cp >= 0xD800 && cp <= 0xDFFF) {
			return false // not the shortest form, beyond Unicode, or a surrogate
		}
		i += n + 1
	}
	return true
}

// rfcEncodeRaw applies the RFC 3629 bit layout to any 21-bit number (also to surrogates and to
// numbers above U+10FFFF: that is how the invalid test strings are made).
func rfcEncodeRaw(cp uint32) []byte {
	switch {
	case cp <= 0x7F:
		return []byte{byte(cp)}
	case cp <= 0x7FF:
		return []byte{0xC0 | byte(cp>>6), 0x80 | byte(cp&0x3F)}
	case cp <= 0xFFFF:
		return []byte{0xE0 | byte(cp>>12), 0x80 | byte(cp>>6&0x3F), 0x80 | byte(cp&0x3F)}
	default:
		return []byte{0xF0 | byte(cp>>18), 0x80 | byte(cp>>12&0x3F), 0x80 | byte(cp>>6&0x3F), 0x80 | byte(cp&0x3F)}
	}
}

type c16str struct {
	class string
	b     []byte
}

// the shared test strings of parts (a)-(c)
func c16Strings() []c16str {
	var out []c16str
	seen := map[string]bool{}
	add := func(class string, b []byte) {
		if seen[string(b)] {
			return
		}
		seen[string(b)] = true
		out = append(out, c16str{class, append([]byte(nil), b...)})
	}
	add("ascii", nil)
	add("ascii", []byte("a"))
	add("ascii", []byte("hello, world"))
	// boundary code points of every class (valid and invalid neighbours)
	for _, cp := range []uint32{0x7F, 0x80, 0xE9, 0x7FF, 0x800, 0x4E2D, 0xD7FF, 0xD800, 0xDBFF, 0xDC00, 0xDFFF, 0xE000, 0xFFFD, 0xFFFF,
		0x10000, 0x1F600, 0x10FFFF, 0x110000, 0x13FFFF, 0x1FFFFF} {
		e := rfcEncodeRaw(cp)
		class := fmt.Sprintf("valid-%d", len(e))
		if cp >= 0xD800 && cp <= 0xDFFF {
			class = "surrogate"
		} else if cp > 0x10FFFF {
			class = "above-10ffff"
		}
		add(class, e)
		// truncations of every sequence at every length
		for k := 1; k < len(e); k++ {
			add("truncated", e[:k])
		}
		// a sequence followed by ASCII, and one whose last byte is replaced by ASCII / a lead byte
		add(class, append(append([]byte(nil), e...), 'z'))
		if len(e) > 1 {
			bad := append([]byte(nil), e...)
			bad[len(bad)-1] = 'A'
			add("bad-continuation", bad)
			bad2 := append([]byte(nil), e...)
			bad2[len(bad2)-1] = 0xC3
			add("bad-continuation", bad2)
		}
	}
	// overlongs
	for _, o := range [][]byte{{0xC0, 0x80}, {0xC0, 0xAF}, {0xC1, 0xBF}, {0xE0, 0x80, 0x80}, {0xE0, 0x9F, 0xBF}, {0xF0, 0x80, 0x80, 0x80}, {0xF0, 0x8F, 0xBF, 0xBF}} {
		add("overlong", o)
	}
	// second-byte range edges of the special lead bytes, later bytes at their edges
	for _, o := range [][]byte{{0xE0, 0xA0, 0x80}, {0xE0, 0xBF, 0xBF}, {0xED, 0x9F, 0xBF}, {0xED, 0x80, 0x80}, {0xEE, 0x80, 0x80}, {0xEF, 0xBF, 0xBF},
		{0xF0, 0x90, 0x80, 0x80}, {0xF0, 0xBF, 0xBF, 0xBF}, {0xF1, 0x80, 0x80, 0x80}, {0xF3, 0xBF, 0xBF, 0xBF}, {0xF4, 0x80, 0x80, 0x80}, {0xF4, 0x8F, 0xBF, 0xBF},
		{0xC2, 0x80}, {0xDF, 0xBF}} {
		add(fmt.Sprintf("valid-%d", len(o)), o)
	}
	for _, o := range [][]byte{{0xE1, 0x7F, 0x80}, {0xE1, 0xC0, 0x80}, {0xE1, 0x80, 0x7F}, {0xE1, 0x80, 0xC0}, {0xF1, 0x80, 0x80, 0x7F}, {0xF1, 0x80, 0x80, 0xC0},
		{0xF1, 0x80, 0x7F, 0x80}, {0xF1, 0x7F, 0x80, 0x80}, {0xC2, 0x7F}, {0xC2, 0xC0}, {0xDF, 0xC0}} {
		add("bad-continuation", o)
	}
	// illegal starters
	for _, o := range [][]byte{{0x80}, {0xBF}, {0xF5, 0x80, 0x80, 0x80}, {0xF8, 0x88, 0x80, 0x80, 0x80}, {0xFE}, {0xFF}, {0xC0}, {0xC1}} {
		add("bad-start", o)
	}
	// mixed
	add("valid-mixed", []byte("aé中\U0001F600z"))
	add("valid-mixed", []byte("中文消息"))
	add("valid-mixed", []byte("12345678é")) // multi-byte right after one fast-path block
	add("valid-mixed", []byte("1234567é"))  // multi-byte straddling the first 8-byte block
	add("invalid-mixed", []byte("aé中\xff"))
	add("invalid-mixed", []byte("中文\xe4\xb8"))
	add("invalid-mixed", []byte("12345678\xe4\xb8"))
	add("invalid-mixed", []byte("1234567812345678\x80"))
	return out
}

func concatSlices(s [][]byte) []byte { return bytes.Join(s, nil) }

func vslices(s [][]byte) VL {
	v := VL{}
	for _, x := range s {
		v = append(v, VB(x))
	}
	return v
}

// hexSlices renders a slice list unambiguously: ["e4b8" "ad"], empty slices as ""
type hexList []string

func (h hexList) String() string { return fmt.Sprintf("%q", []string(h)) }

func hexSlices(s [][]byte) hexList {
	o := hexList{}
	for _, x := range s {
		o = append(o, shortHex(x))
	}
	return o
}

func fullHexSlices(s [][]byte) []string {
	o := []string{}
	for _, x := range s {
		o = append(o, fmt.Sprintf("%x", x))
	}
	return o
}

// shortHex abbreviates long payloads in messages and tags (replays carry the full wire bytes)
func shortHex(b []byte) string {
	if len(b) <= 40 {
		return fmt.Sprintf("%x", b)
	}
	return fmt.Sprintf("%x..(%d bytes)..%x", b[:8], len(b), b[len(b)-8:])
}

// splits of b into k in {1,2,3} slices: all 2-way cut positions (0..len, so empty slices occur), all
// 3-way cuts for short strings (a sample for long ones)
func c16Splits(c *Ctx, b []byte, three bool) [][][]byte {
	out := [][][]byte{{b}}
	for i := 0; i <= len(b); i++ {
		out = append(out, [][]byte{b[:i], b[i:]})
	}
	if three {
		for i := 0; i <= len(b); i++ {
			for j := i; j <= len(b); j++ {
				if len(b) > 6 && c.Rng.Intn(len(b)) > 2 {
					continue
				}
				out = append(out, [][]byte{b[:i], b[i:j], b[j:]})
			}
		}
	}
	return out
}

// ---------------------------------------------------------------------------------------------

const c16Ext = "permessage-deflate; server_no_context_takeover; client_no_context_takeover"

func c16Conn(server, enabled, pd bool, h gws.Event) (*gws.Conn, *memConn, error) {
	mc := newMemConn()
	pdo := gws.PermessageDeflate{}
	if pd {
		pdo = gws.PermessageDeflate{Enabled: true, Threshold: 1, ServerContextTakeover: false, ClientContextTakeover: false}
	}
	var conn *gws.Conn
	var err error
	if server {
		extra := http.Header{}
		if pd {
			extra.Set("Sec-WebSocket-Extensions", c16Ext)
		}
		conn, err = serverConn(&gws.ServerOption{CheckUtf8Enabled: enabled, PermessageDeflate: pdo}, h, mc, extra)
	} else {
		ext := ""
		if pd {
			ext = c16Ext
		}
		conn, _, err = clientConn(&gws.ClientOption{CheckUtf8Enabled: enabled, PermessageDeflate: pdo}, h, mc, ext, nil)
	}
	if err != nil {
		return nil, mc, err
	}
	if conn.VerifPD().Enabled != pd {
		return nil, mc, fmt.Errorf("permessage-deflate negotiation: want enabled=%v", pd)
	}
	mc.resetLog()
	return conn, mc, nil
}

func roleName(server bool) string {
	if server {
		return "server"
	}
	return "client"
}

// ---------------------------------------------------------------------------------------------
// (b) one write call on a fresh connection

type c16Write struct {
	api    string // WriteMessage, WriteString, WriteAsync, Writev, WritevAsync
	kind   int    // 0 = internal.Bytes path, 1 = internal.Buffers path
	op     int
	slices [][]byte
}

func (c *Ctx) c16DoWrite(server, enabled, pd bool, w c16Write) error {
	conn, mc, err := c16Conn(server, enabled, pd, &recHandler{})
	if err != nil {
		return err
	}
	defer mc.Close()
	whole := concatSlices(w.slices)
	var werr error
	asyncDone := make(chan error, 1)
	var panicked any
	func() {
		defer func() { panicked = recover() }()
		switch w.api {
		case "WriteMessage":
			werr = conn.WriteMessage(gws.Opcode(w.op), w.slices[0])
		case "WriteString":
			werr = conn.WriteString(string(w.slices[0]))
		case "WriteAsync":
			conn.WriteAsync(gws.Opcode(w.op), w.slices[0], func(e error) { asyncDone <- e })
		case "Writev":
			werr = conn.Writev(gws.Opcode(w.op), w.slices...)
		case "WritevAsync":
			conn.WritevAsync(gws.Opcode(w.op), w.slices, func(e error) { asyncDone <- e })
		case "Broadcast":
			b := gws.NewBroadcaster(gws.Opcode(w.op), w.slices[0])
			werr = b.Broadcast(conn)
			done := make(chan struct{})
			conn.Async(func() { close(done) })
			select {
			case <-done:
			case <-time.After(5 * time.Second):
			}
			_ = b.Close()
		}
	}()
	if panicked != nil {
		c.oracleFail(fmt.Sprintf("%s(%s) of slices %v panicked: %v", w.api, opName(w.op), hexSlices(w.slices), panicked), "write-panic",
			map[string]any{"part": "write", "role": roleName(server), "check_utf8": enabled, "api": w.api, "opcode": w.op, "slices_hex": fullHexSlices(w.slices)})
		return nil
	}
	if w.api == "WriteAsync" || w.api == "WritevAsync" {
		select {
		case werr = <-asyncDone:
		case <-time.After(5 * time.Second):
			return fmt.Errorf("%s callback did not fire", w.api)
		}
	}
	accepted := werr == nil
	tap := mc.written()
	frames, rest, perr := parseFrames(tap)
	replay := map[string]any{"part": "write", "role": roleName(server), "check_utf8": enabled, "compression": pd, "api": w.api, "opcode": w.op,
		"slices_hex": fullHexSlices(w.slices), "error": fmt.Sprint(werr), "wire_hex": fmt.Sprintf("%x", tap)}
	valid := rfcValid(whole)
	want := !enabled || w.op != 1 || valid
	tag := fmt.Sprintf("write %s %s utf8=%v pd=%v op=%d slices=%v", roleName(server), w.api, enabled, pd, w.op, hexSlices(w.slices))
	// the property's oracle
	if accepted != want {
		what := "REJECTED although"
		if accepted {
			what = "ACCEPTED although"
		}
		c.oracleFail(fmt.Sprintf("%s(%s) of slices %v (concatenation valid UTF-8: %v, CheckUtf8Enabled=%v, role %s) was %s the statement says accepted=%v; error=%v",
			w.api, opName(w.op), hexSlices(w.slices), valid, enabled, roleName(server), what, want, werr), "write-gate", replay)
	}
	if !accepted && !errors.Is(werr, gws.ErrTextEncoding) {
		c.oracleFail(fmt.Sprintf("%s(%s) of %v failed with %v (only ErrTextEncoding is expected here)", w.api, opName(w.op), hexSlices(w.slices), werr), "write-error-kind", replay)
	}
	if perr != nil || len(rest) != 0 {
		c.oracleFail(fmt.Sprintf("wire after %s is not a sequence of frames: %v", w.api, perr), "write-wire-parse", replay)
	}
	var data []frame
	for _, f := range frames {
		if f.Opcode < 8 {
			data = append(data, f)
		}
	}
	if accepted {
		ok := len(frames) == 1 && len(data) == 1 && data[0].Opcode == w.op && data[0].Fin && data[0].Masked == !server
		if ok {
			p := data[0].Payload
			if data[0].Rsv1 {
				p, err = rfc7692Inflate(p, nil)
				ok = err == nil && pd
			}
			ok = ok && bytes.Equal(p, whole)
		}
		if !ok {
			c.oracleFail(fmt.Sprintf("%s(%s) of %v returned nil but the wire does not hold exactly one %s frame carrying the concatenation", w.api, opName(w.op), hexSlices(w.slices), opName(w.op)),
				"write-wire-content", replay)
		}
	} else if len(data) != 0 {
		c.oracleFail(fmt.Sprintf("%s(%s) of %v returned %v but %d data frame(s) went on the wire", w.api, opName(w.op), hexSlices(w.slices), werr, len(data)), "write-rejected-on-wire", replay)
	}
	c.addCase("C16w", VL{vbool(enabled), VN(w.op), vslices(w.slices), vbool(accepted), VN(w.kind)}, tag)
	splitsCodePoint := len(w.slices) > 1 && valid && !allValid(w.slices)
	c.count(tag, len(whole) > 0, "write:"+w.api, fmt.Sprintf("write:accepted=%v", accepted), fmt.Sprintf("write:slices=%d", len(w.slices)),
		fmt.Sprintf("write:valid-code-point-split-across-slices=%v", splitsCodePoint))
	if splitsCodePoint && enabled && w.op == 1 && len(w.slices[0]) >= 2 && len(c16Samples["write"]) < 2 {
		c16Sample("write", map[string]any{"part": "write", "api": w.api, "role": roleName(server), "slices": hexSlices(w.slices), "accepted": accepted})
	}
	return nil
}

func allValid(s [][]byte) bool {
	for _, x := range s {
		if !rfcValid(x) {
			return false
		}
	}
	return true
}

func opName(op int) string {
	switch op {
	case 0:
		return "Continuation"
	case 1:
		return "Text"
	case 2:
		return "Binary"
	case 8:
		return "Close"
	}
	return fmt.Sprintf("opcode%d", op)
}

// ---------------------------------------------------------------------------------------------
// (c) one inbound stream on a fresh connection

type c16Read struct {
	op         int
	frags      [][]byte // uncompressed fragment payloads (compressed: the whole payload in one element, wire split by wireCuts)
	compressed bool
	wireCut    int  // compressed only: where the compressed bytes are cut into two frames (-1: one frame)
	pingAt     int  // insert a Ping before fragment pingAt (>0), 0 = none
	prelude    bool // a valid text message "ok" is delivered first on the same connection
}

func (c *Ctx) c16DoRead(server, enabled bool, r c16Read) error {
	h := &recHandler{}
	conn, mc, err := c16Conn(server, enabled, r.compressed, h)
	if err != nil {
		return err
	}
	masked := server // frames towards a server are masked
	whole := concatSlices(r.frags)
	key := [4]byte{byte(c.Rng.Intn(256)), byte(c.Rng.Intn(256)), byte(c.Rng.Intn(256)), byte(c.Rng.Intn(256))}
	var stream []byte
	mk := func(op int, fin, rsv1 bool, p []byte) {
		stream = append(stream, encodeFrame(frameSpec{Fin: fin, Rsv1: rsv1, Opcode: op, Masked: masked, Key: key, Payload: p, DeclLen: -1})...)
	}
	if r.prelude {
		mk(1, true, false, []byte("ok"))
	}
	nframes := 0
	if r.compressed {
		z := rfc7692Deflate(whole, nil, 6)
		if r.wireCut < 0 || r.wireCut > len(z) {
			mk(r.op, true, true, z)
			nframes = 1
		} else {
			mk(r.op, false, true, z[:r.wireCut])
			mk(0, true, false, z[r.wireCut:])
			nframes = 2
		}
	} else {
		for i, f := range r.frags {
			if r.pingAt > 0 && i == r.pingAt {
				mk(9, true, false, []byte("p"))
			}
			op := 0
			if i == 0 {
				op = r.op
			}
			mk(op, i == len(r.frags)-1, false, f)
			nframes++
		}
	}
	mc.feed(stream)
	mc.setEOF()
	var panicked any
	if !runWithTimeout(10*time.Second, func() {
		defer func() { panicked = recover() }()
		conn.ReadLoop()
	}) {
		return fmt.Errorf("ReadLoop did not return on a finite stream")
	}
	if panicked != nil {
		c.oracleFail(fmt.Sprintf("ReadLoop panicked on an inbound %s message with fragments %v: %v", opName(r.op), hexSlices(r.frags), panicked), "read-panic",
			map[string]any{"part": "read", "role": roleName(server), "check_utf8": enabled, "inbound_hex": fmt.Sprintf("%x", stream)})
		return nil
	}
	evs := h.events()
	var msgs []evRec
	closes := 0
	for _, e := range evs {
		switch e.Kind {
		case "msg":
			msgs = append(msgs, e)
		case "close":
			closes++
		}
	}
	if r.prelude {
		if len(msgs) == 0 || msgs[0].Opcode != 1 || string(msgs[0].Payload) != "ok" {
			return fmt.Errorf("prelude message was not delivered")
		}
		msgs = msgs[1:]
	}
	tap := mc.written()
	frames, _, _ := parseFrames(tap)
	status := 0
	ncloseFrames := 0
	for _, f := range frames {
		if f.Opcode == 8 {
			ncloseFrames++
			if len(f.Payload) >= 2 {
				status = int(f.Payload[0])<<8 | int(f.Payload[1])
			}
		}
	}
	delivered := len(msgs) == 1 && msgs[0].Opcode == r.op && bytes.Equal(msgs[0].Payload, whole)
	valid := rfcValid(whole)
	want := !enabled || r.op != 1 || valid
	replay := map[string]any{"part": "read", "role": roleName(server), "check_utf8": enabled, "opcode": r.op, "fragments_hex": fullHexSlices(r.frags),
		"compressed": r.compressed, "wire_cut": r.wireCut, "ping_before_fragment": r.pingAt, "prelude": r.prelude,
		"inbound_hex": fmt.Sprintf("%x", stream), "outbound_hex": fmt.Sprintf("%x", tap), "events": fmt.Sprint(evs)}
	desc := fmt.Sprintf("inbound %s message, fragments %v (compressed=%v, %d frames, role %s, CheckUtf8Enabled=%v, whole payload valid UTF-8: %v)",
		opName(r.op), hexSlices(r.frags), r.compressed, nframes, roleName(server), enabled, valid)
	if want {
		if !delivered {
			c.oracleFail(fmt.Sprintf("%s was not delivered unchanged (OnMessage calls: %d, close status %d)", desc, len(msgs), status), "read-not-delivered", replay)
		}
	} else {
		if len(msgs) != 0 {
			c.oracleFail(fmt.Sprintf("%s was delivered to OnMessage", desc), "read-invalid-delivered", replay)
		}
		if status != 1007 || ncloseFrames != 1 {
			c.oracleFail(fmt.Sprintf("%s: gws answered with %d close frame(s), status %d; the statement says 1007", desc, ncloseFrames, status), "read-status", replay)
		}
		if closes != 1 {
			c.oracleFail(fmt.Sprintf("%s: OnClose fired %d times", desc, closes), "read-onclose", replay)
		}
	}
	tag := fmt.Sprintf("read %s utf8=%v op=%d frags=%v z=%v cut=%d ping=%d pre=%v", roleName(server), enabled, r.op, hexSlices(r.frags), r.compressed, r.wireCut, r.pingAt, r.prelude)
	c.addCase("C16r", VL{vbool(enabled), VN(r.op), vslices(r.frags), vbool(delivered), VN(status)}, tag)
	splitsCodePoint := len(r.frags) > 1 && valid && !allValid(r.frags)
	c.count(tag, len(whole) > 0, fmt.Sprintf("read:frames=%d", nframes), fmt.Sprintf("read:compressed=%v", r.compressed), fmt.Sprintf("read:delivered=%v", delivered),
		fmt.Sprintf("read:valid-code-point-split-across-fragments=%v", splitsCodePoint))
	if splitsCodePoint && enabled && len(r.frags[0]) >= 2 && len(c16Samples["read"]) < 2 {
		c16Sample("read", map[string]any{"part": "read", "role": roleName(server), "fragments": hexSlices(r.frags), "delivered": delivered})
	}
	return nil
}

func (c *Ctx) c16DoClose(server, enabled bool, code int, reason []byte) error {
	h := &recHandler{}
	conn, mc, err := c16Conn(server, enabled, false, h)
	if err != nil {
		return err
	}
	body := append([]byte{byte(code >> 8), byte(code)}, reason...)
	stream := encodeFrame(frameSpec{Fin: true, Opcode: 8, Masked: server, Key: [4]byte{9, 8, 7, 6}, Payload: body, DeclLen: -1})
	mc.feed(stream)
	mc.setEOF()
	if !runWithTimeout(10*time.Second, conn.ReadLoop) {
		return fmt.Errorf("ReadLoop did not return on a finite stream")
	}
	tap := mc.written()
	frames, _, _ := parseFrames(tap)
	status, nclose := 0, 0
	for _, f := range frames {
		if f.Opcode == 8 {
			nclose++
			if len(f.Payload) >= 2 {
				status = int(f.Payload[0])<<8 | int(f.Payload[1])
			}
		}
	}
	valid := rfcValid(reason)
	replay := map[string]any{"part": "close", "role": roleName(server), "check_utf8": enabled, "code": code, "reason_hex": fmt.Sprintf("%x", reason),
		"inbound_hex": fmt.Sprintf("%x", stream), "outbound_hex": fmt.Sprintf("%x", tap)}
	if nclose != 1 {
		c.oracleFail(fmt.Sprintf("inbound Close %d reason %x: gws wrote %d close frames", code, reason, nclose), "close-reply-count", replay)
	}
	if want1007 := enabled && !valid; (status == 1007) != want1007 {
		c.oracleFail(fmt.Sprintf("inbound Close frame code %d with reason %x (valid UTF-8: %v, CheckUtf8Enabled=%v, role %s) was answered with status %d; the statement says 1007 iff checking is on and the reason is invalid",
			code, reason, valid, enabled, roleName(server), status), "close-reason", replay)
	}
	if enabled && !valid && len(reason) >= 2 && len(c16Samples["close"]) < 1 {
		c16Sample("close", map[string]any{"part": "close", "role": roleName(server), "code": code, "reason": fmt.Sprintf("%x", reason), "reply_status": status})
	}
	tag := fmt.Sprintf("close %s utf8=%v code=%d reason=%x", roleName(server), enabled, code, reason)
	c.addCase("C16c", VL{vbool(enabled), VN(code), VB(reason), VN(status)}, tag)
	c.count(tag, len(reason) > 0, fmt.Sprintf("close:status=%d", status))
	return nil
}

// ---------------------------------------------------------------------------------------------
// (a) library

// verdict of the implementation on one string: utf8.Valid as reached by gws (CheckEncoding, checking on, text)
func (c *Ctx) c16Lib(s []byte, class string) {
	got := gws.VerifCheckEncoding(true, 1, s)
	if lib := utf8.Valid(s); lib != got {
		c.oracleFail(fmt.Sprintf("CheckEncoding(true, 1, %s) = %v but utf8.Valid = %v", shortHex(s), got, lib), "checkencoding-vs-utf8valid", map[string]any{"part": "lib", "hex": fmt.Sprintf("%x", s)})
	}
	if want := rfcValid(s); want != got {
		c.oracleFail(fmt.Sprintf("CheckEncoding(true, 1, %s) = %v; RFC 3629 says well-formed = %v", shortHex(s), got, want), "lib-validity", map[string]any{"part": "lib", "hex": fmt.Sprintf("%x", s)})
	}
	c.addCase("C16lib", VL{VB(s), vbool(got)}, "lib "+shortHex(s))
	c.count("lib"+string(s), len(s) > 0, "lib:"+class, fmt.Sprintf("lib:valid=%v", got))
}

// all 256 one-byte extensions of a prefix in one case
func (c *Ctx) c16LibX(prefix []byte, class string) {
	verdicts := make([]byte, 256)
	s := append(append([]byte(nil), prefix...), 0)
	nvalid := 0
	for i := 0; i < 256; i++ {
		s[len(prefix)] = byte(i)
		got := gws.VerifCheckEncoding(true, 1, s)
		if got {
			verdicts[i] = 1
			nvalid++
		}
		if want := rfcValid(s); want != got {
			c.oracleFail(fmt.Sprintf("CheckEncoding(true, 1, %x) = %v; RFC 3629 says well-formed = %v", s, got, want), "lib-validity", map[string]any{"part": "lib", "hex": fmt.Sprintf("%x", s)})
		}
	}
	c.addCase("C16libx", VL{VB(prefix), VB(verdicts)}, fmt.Sprintf("libx %x", prefix))
	c.count("libx"+string(prefix), true, "libx:"+class)
	c.Sum.Evaluations += 255
	c.Sum.Distribution["libx:strings"] += 256
	c.Sum.Distribution["libx:valid-strings"] += nvalid
}

func (c *Ctx) c16CE(enabled bool, op int, s []byte) {
	got := gws.VerifCheckEncoding(enabled, uint8(op), s)
	want := !enabled || (op != 1 && op != 8) || rfcValid(s)
	if got != want {
		c.oracleFail(fmt.Sprintf("CheckEncoding(%v, %d, %x) = %v; the statement says %v (only text and close payloads are checked, and only when checking is on)", enabled, op, s, got, want),
			"checkencoding-gate", map[string]any{"part": "checkencoding", "enabled": enabled, "opcode": op, "hex": fmt.Sprintf("%x", s)})
	}
	c.addCase("C16ce", VL{vbool(enabled), VN(op), VB(s), vbool(got)}, fmt.Sprintf("ce %v %d %x", enabled, op, s))
	c.count(fmt.Sprintf("ce%v%d%x", enabled, op, s), len(s) > 0, "checkencoding")
}

// ---------------------------------------------------------------------------------------------

func runC16(c *Ctx) error {
	quick := c.quick()
	c.Sum.Rule = "(a) utf8.Valid via CheckEncoding vs model: every string of length <= 2, 3-byte strings with lead byte >= 0x80 (thorough: all 8.4M; quick: 80 two-byte prefixes x 256), " +
		"4-byte strings F0..F7 x {7F,80,8F,90,BF,C0}^2 x all last bytes (thorough: every second byte), boundary code points / overlongs / surrogates / truncations at offsets 0..9 in ASCII padding; " +
		"(b) WriteMessage/WriteString/WriteAsync/Writev/WritevAsync on fresh connections, both roles, checking on/off, every 2-way (short strings: 3-way) slicing; " +
		"(c) inbound text/binary messages unfragmented, fragmented at every position, compressed (cut at every position), with interleaved ping, and Close frames with each reason; " +
		"non-trivial = non-empty payload; distinct by full input"
	strs := c16Strings()
	c16Samples = map[string][]any{}

	// a few batched library cases first so that they are part of the in-kernel sample
	for _, p := range [][]byte{{}, {0xE0}, {0xF4, 0x8F}} {
		c.c16LibX(p, "kernel-sample")
	}

	if err := c.c16BroadcastClasses(); err != nil {
		return err
	}
	roles := []bool{true, false}
	for si, ts := range strs {
		s := ts.b
		// ---- (a) singles: the string inside ASCII padding, offsets 0..9
		for off := 0; off <= 9; off++ {
			p := append(bytes.Repeat([]byte{'x'}, off), s...)
			c.c16Lib(p, ts.class)
			c.c16Lib(append(append([]byte(nil), p...), bytes.Repeat([]byte{'y'}, 9-off)...), ts.class)
		}
		for _, en := range []bool{true, false} {
			for _, op := range []int{0, 1, 2, 8, 9, 10} {
				c.c16CE(en, op, s)
			}
		}
		// ---- (b) write side
		for _, server := range roles {
			for _, en := range []bool{true, false} {
				if !quick || (si+b2i(server)+b2i(en))%2 == 0 || ts.class == "valid-3" || ts.class == "truncated" {
					if err := c.c16DoWrite(server, en, false, c16Write{"WriteMessage", 0, 1, [][]byte{s}}); err != nil {
						return err
					}
					if err := c.c16DoWrite(server, en, false, c16Write{"WriteString", 0, 1, [][]byte{s}}); err != nil {
						return err
					}
					if err := c.c16DoWrite(server, en, false, c16Write{"WriteAsync", 0, 1, [][]byte{s}}); err != nil {
						return err
					}
					if err := c.c16DoWrite(server, en, false, c16Write{"WriteMessage", 0, 2, [][]byte{s}}); err != nil {
						return err
					}
					if err := c.c16DoWrite(server, en, si%2 == 0, c16Write{"Broadcast", 0, 1, [][]byte{s}}); err != nil {
						return err
					}
				}
				if !en && quick && si%4 != 0 {
					continue // checking off: a quarter of the strings in the quick tier
				}
				three := len(s) <= 4 || !quick
				if si == 0 {
					// Writev with no slice at all: the empty message
					for _, op := range []int{1, 2} {
						if err := c.c16DoWrite(server, en, false, c16Write{"Writev", 1, op, [][]byte{}}); err != nil {
							return err
						}
					}
				}
				for k, sl := range c16Splits(c, s, three) {
					if err := c.c16DoWrite(server, en, false, c16Write{"Writev", 1, 1, sl}); err != nil {
						return err
					}
					if k%3 == 0 || !quick {
						if err := c.c16DoWrite(server, en, false, c16Write{"WritevAsync", 1, 1, sl}); err != nil {
							return err
						}
					}
					if k%4 == 1 || !quick {
						if err := c.c16DoWrite(server, en, false, c16Write{"Writev", 1, 2, sl}); err != nil {
							return err
						}
					}
					if en && (k%5 == 2 || !quick) {
						if err := c.c16DoWrite(server, en, true, c16Write{"Writev", 1, 1, sl}); err != nil {
							return err
						}
					}
				}
			}
		}
		// ---- (c) read side
		for _, server := range roles {
			for _, en := range []bool{true, false} {
				if !en && quick && si%4 != 0 {
					continue
				}
				three := len(s) <= 4 || !quick
				for k, fr := range c16Splits(c, s, three) {
					if err := c.c16DoRead(server, en, c16Read{op: 1, frags: fr, wireCut: -1}); err != nil {
						return err
					}
					if len(fr) >= 2 && (k%3 == 0 || !quick) {
						if err := c.c16DoRead(server, en, c16Read{op: 1, frags: fr, wireCut: -1, pingAt: 1}); err != nil {
							return err
						}
					}
					if k%4 == 1 || !quick {
						if err := c.c16DoRead(server, en, c16Read{op: 2, frags: fr, wireCut: -1}); err != nil {
							return err
						}
					}
					if k%5 == 2 || !quick {
						if err := c.c16DoRead(server, en, c16Read{op: 1, frags: fr, wireCut: -1, prelude: true}); err != nil {
							return err
						}
					}
				}
				// compressed: one frame, then cut at every position of the compressed bytes
				zlen := len(rfc7692Deflate(s, nil, 6))
				for cut := -1; cut <= zlen; cut++ {
					if quick && cut >= 0 && (cut+si)%3 != 0 {
						continue
					}
					if err := c.c16DoRead(server, en, c16Read{op: 1, frags: [][]byte{s}, compressed: true, wireCut: cut}); err != nil {
						return err
					}
				}
				if err := c.c16DoRead(server, en, c16Read{op: 2, frags: [][]byte{s}, compressed: true, wireCut: -1}); err != nil {
					return err
				}
				// close reasons
				codes := []int{1000}
				if !quick || si%3 == 0 {
					codes = []int{1000, 3000, 1005, 1007, 1014}
				}
				for _, code := range codes {
					if err := c.c16DoClose(server, en, code, s); err != nil {
						return err
					}
				}
			}
		}
	}

	// ---- long payloads: around the frame length forms (125/126, 65535/65536), the bufio and pool sizes, the
	// default compression threshold (512); a 3-byte code point at the very end / in the middle, valid and truncated
	longLens := []int{125, 126, 127, 128, 511, 512, 513, 4095, 4096, 4097, 65535, 65536, 70001}
	if quick {
		longLens = []int{125, 126, 128, 512, 513, 4096, 4097, 65536, 70001}
	}
	for li, n := range longLens {
		filler := func(k int) []byte {
			b := make([]byte, k)
			for i := range b {
				b[i] = byte('a' + (i*7+li)%26)
			}
			return b
		}
		variants := []c16str{
			{"long-valid-end", append(filler(n-3), 0xE4, 0xB8, 0xAD)},
			{"long-truncated-end", append(filler(n-2), 0xE4, 0xB8)},
			{"long-invalid-last", append(filler(n-1), 0x80)},
			{"long-valid-mid", append(append(filler(n/2), 0xF0, 0x9F, 0x98, 0x80), filler(n-n/2-4)...)},
			{"long-invalid-mid", append(append(filler(n/2), 0xED, 0xA0, 0x80), filler(n-n/2-3)...)},
		}
		for vi, ts := range variants {
			s := ts.b
			c.c16Lib(s, ts.class)
			cuts := []int{n - 1, n - 2, n / 2, n/2 + 1, n/2 + 2, 1}
			for _, server := range roles {
				for _, en := range []bool{true, false} {
					if !en && (quick || vi > 1) && (li+vi)%3 != 0 {
						continue
					}
					for _, w := range []c16Write{{"WriteMessage", 0, 1, [][]byte{s}}, {"WriteString", 0, 1, [][]byte{s}}, {"WriteMessage", 0, 2, [][]byte{s}}, {"Writev", 1, 1, [][]byte{s}}} {
						if err := c.c16DoWrite(server, en, false, w); err != nil {
							return err
						}
					}
					if err := c.c16DoWrite(server, en, true, c16Write{"WriteMessage", 0, 1, [][]byte{s}}); err != nil {
						return err
					}
					if err := c.c16DoRead(server, en, c16Read{op: 1, frags: [][]byte{s}, wireCut: -1}); err != nil {
						return err
					}
					if err := c.c16DoRead(server, en, c16Read{op: 1, frags: [][]byte{s}, compressed: true, wireCut: -1}); err != nil {
						return err
					}
					if err := c.c16DoRead(server, en, c16Read{op: 1, frags: [][]byte{s}, compressed: true, wireCut: 5}); err != nil {
						return err
					}
					for ci, cut := range cuts {
						if quick && (ci+li+vi)%2 == 0 {
							continue
						}
						if err := c.c16DoWrite(server, en, false, c16Write{"Writev", 1, 1, [][]byte{s[:cut], s[cut:]}}); err != nil {
							return err
						}
						if err := c.c16DoWrite(server, en, ci%2 == 0, c16Write{"WritevAsync", 1, 1, [][]byte{s[:1], s[1:cut], s[cut:]}}); err != nil {
							return err
						}
						if err := c.c16DoRead(server, en, c16Read{op: 1, frags: [][]byte{s[:cut], s[cut:]}, wireCut: -1}); err != nil {
							return err
						}
						if err := c.c16DoRead(server, en, c16Read{op: 1, frags: [][]byte{s[:1], s[1:cut], s[cut:]}, wireCut: -1, pingAt: 2}); err != nil {
							return err
						}
					}
				}
			}
		}
	}
	// close reasons at the 123-byte limit of a control frame
	for _, ts := range []c16str{{"close-123-valid", append(bytes.Repeat([]byte{'r'}, 120), 0xE4, 0xB8, 0xAD)}, {"close-123-truncated", append(bytes.Repeat([]byte{'r'}, 121), 0xE4, 0xB8)},
		{"close-122-invalid", append(bytes.Repeat([]byte{'r'}, 121), 0xFF)}} {
		for _, server := range roles {
			for _, en := range []bool{true, false} {
				if err := c.c16DoClose(server, en, 1000, ts.b); err != nil {
					return err
				}
			}
		}
	}

	// ---- (a) exhaustive part
	// every string of length <= 2 (length 0 and 1: the first batched case and the singles above)
	for b0 := 0; b0 < 256; b0++ {
		c.c16LibX([]byte{byte(b0)}, "len2")
	}
	if quick {
		// deterministic sample of 3-byte strings with lead byte >= 0x80: 80 prefixes x 256
		for i := 0; i < 80; i++ {
			b0 := 0x80 + c.Rng.Intn(128)
			if i%2 == 0 {
				b0 = 0xC0 + c.Rng.Intn(0x38) // lead bytes
			}
			b1 := c.Rng.Intn(256)
			if i%4 < 2 {
				b1 = []int{0x7F, 0x80, 0x8F, 0x90, 0x9F, 0xA0, 0xBF, 0xC0}[c.Rng.Intn(8)]
			}
			c.c16LibX([]byte{byte(b0), byte(b1)}, "len3-sample")
		}
	} else {
		for b0 := 0x80; b0 < 256; b0++ {
			for b1 := 0; b1 < 256; b1++ {
				c.c16LibX([]byte{byte(b0), byte(b1)}, "len3")
			}
		}
	}
	edge := []byte{0x7F, 0x80, 0x8F, 0x90, 0xBF, 0xC0}
	for b0 := 0xF0; b0 <= 0xF7; b0++ {
		for _, b1 := range edge {
			for _, b2 := range edge {
				c.c16LibX([]byte{byte(b0), b1, b2}, "len4")
			}
		}
	}
	if !quick {
		// 4-byte strings: lead F0..F7 x every second byte x edge third bytes x every last byte
		for b0 := 0xF0; b0 <= 0xF7; b0++ {
			for b1 := 0; b1 < 256; b1++ {
				for _, b2 := range edge {
					c.c16LibX([]byte{byte(b0), byte(b1), b2}, "len4-wide")
				}
			}
		}
	}
	// the same boundary prefixes behind one and two 8-byte ASCII blocks
	for _, pad := range []int{8, 16, 7, 9} {
		for _, pre := range [][]byte{{0xE0}, {0xED}, {0xF0}, {0xF4}, {0xC2}, {0xE4, 0xB8}, {0xF0, 0x9F, 0x98}} {
			c.c16LibX(append(bytes.Repeat([]byte{'x'}, pad), pre...), "padded")
		}
	}
	for _, part := range []string{"write", "read", "close"} {
		for _, v := range c16Samples[part] {
			c.sample(v)
		}
	}
	c.sample(map[string]any{"part": "lib", "string": "f4908080", "go_valid": gws.VerifCheckEncoding(true, 1, []byte{0xF4, 0x90, 0x80, 0x80})})
	c.Sum.Notes = append(c.Sum.Notes,
		"a write call rejected with ErrTextEncoding goes through emitError: gws then sends a Close frame (1001) and closes the connection; the oracle therefore demands 'no DATA frame on the wire' for a rejected call, not 'no byte'",
		"WriteFile streams without validation (frameConfig.checkEncoding=false): outside the property's anchors, not exercised",
		"WriteClose reasons are not validated on the write side (genFrame tests opcode == OpcodeText only): outside the statement, not exercised")
	return nil
}

// representative cases of each part, reported as evidence samples at the end of the run
var c16Samples = map[string][]any{}

func c16Sample(part string, v any) { c16Samples[part] = append(c16Samples[part], v) }

func b2i(b bool) int {
	if b {
		return 1
	}
	return 0
}

// c16BroadcastClasses: ONE Broadcaster used on connections with and without permessage-deflate, in both orders, several
// times: every Broadcast call of an invalid text fails with the encoding error and puts nothing on the wire, every call
// of a valid one succeeds - whatever the Broadcaster has already been used for.
func (c *Ctx) c16BroadcastClasses() error {
	texts := [][]byte{[]byte("ok\x80"), {0xff}, []byte("caf\xc3"), []byte("valid \xc3\xa9"), bytes.Repeat([]byte("long valid text "), 60), append(bytes.Repeat([]byte("long invalid text "), 60), 0xc0, 0x80)}
	for ti, text := range texts {
		for oi, order := range [][]bool{{false, true, false, true}, {true, false, true, false}, {false, true}} {
			b := gws.NewBroadcaster(gws.OpcodeText, text)
			checking := oi < 2 // the third pass: checking off - nothing is refused on encoding grounds
			valid := rfcValid(text) || !checking
			for k, pd := range order {
				conn, mc, err := c16Conn(true, checking, pd, &recHandler{})
				if err != nil {
					return err
				}
				werr := b.Broadcast(conn)
				if werr == nil { // the write itself is a queued job: wait for the queue to drain
					done := make(chan struct{})
					conn.Async(func() { close(done) })
					select {
					case <-done:
					case <-time.After(5 * time.Second):
					}
				}
				tag := fmt.Sprintf("one Broadcaster across compression classes text=%d order=%v call=%d deflate=%v checking=%v", ti, order, k, pd, checking)
				onWire := false
				if fs, _, perr := parseFrames(mc.written()); perr == nil {
					for _, f := range fs {
						onWire = onWire || f.Opcode == 1
					}
				}
				switch {
				case valid && (werr != nil || !onWire):
					c.oracleFail(fmt.Sprintf("Broadcast of a text that must be sent (valid, or checking off) returned %v, message on the wire: %v [%s]", werr, onWire, tag), "c16-write-verdict", map[string]any{"tag": tag})
				case !valid && (werr == nil || onWire):
					c.oracleFail(fmt.Sprintf("Broadcast of a text that is not UTF-8 (%q) returned %v, message on the wire: %v [%s]", head(text, 24), werr, onWire, tag), "c16-write-verdict", map[string]any{"tag": tag})
				}
				_ = mc.Close()
				c.count(tag, true, "kind=broadcast-classes")
			}
			_ = b.Close()
		}
	}
	return nil
}
