package main

import (
	"bytes"
	"compress/flate"
	"encoding/binary"
	"fmt"
	"math"
)

func init() { runners["C13"] = runC13 }

// C13: limits x sizes around them x shapes (single, fragmented, compressed, compressed+fragmented, bombs, declared-only).
func runC13(c *Ctx) error {
	c.Sum.Rule = "limits {1,16,125,126,1000,65536(,2^20)} x sizes {limit-1, limit, limit+1, 2*limit, declared 2^31 / 2^63-1 / 2^63 / 2^64-1} x shapes {one frame, 2-4 fragments, compressed (compressible and incompressible), compressed+fragmented, 1000:1 bomb, compressed with a final DEFLATE block} x both roles; oracle: delivered iff wire and inflated size within the limit, 1009 when the wire sizes reveal it, allocation during the read loop bounded by 4*limit+2MiB; non-trivial = all; distinct by (role, limit, shape, size)"
	limits := []int{1, 16, 125, 126, 1000, 65536}
	if !c.quick() {
		limits = append(limits, 1<<20)
	}
	for _, server := range []bool{true, false} {
		for _, limit := range limits {
			sizes := []int{limit - 1, limit, limit + 1, 2 * limit}
			for _, size := range sizes {
				for shape := 0; shape < 9; shape++ {
					pmd := shape >= 2
					spec := connSpec{Server: server, PMD: pmd, RLimit: limit, Utf8: false}
					var payload []byte
					switch shape {
					case 3, 5, 8: // incompressible
						payload = randBytes(c.Rng, size)
					default:
						payload = bytes.Repeat([]byte("abcdefgh"), size/8+1)[:size]
					}
					if shape == 6 { // bomb: inflated size 1000 x limit (capped), compresses to almost nothing
						n := 1000 * limit
						if n > 8<<20 {
							n = 8 << 20
						}
						payload = make([]byte, n)
					}
					wire := payload
					if pmd {
						wire = rfc7692Deflate(payload, nil, 6)
					}
					if shape >= 7 {
						// a sender that ends every message's DEFLATE stream with a final block (BFINAL = 1, RFC 7692 7.2.3.4): the
						// inflater then reports the end of the stream together with the last bytes
						var zb bytes.Buffer
						zw, _ := flate.NewWriter(&zb, 6)
						_, _ = zw.Write(payload)
						_ = zw.Close()
						wire = zb.Bytes()
					}
					nfr := 1
					if shape == 1 || shape == 4 || shape == 5 {
						nfr = 2 + c.Rng.Intn(3)
					}
					var stream []byte
					parts := splitEven(wire, nfr)
					for i, p := range parts {
						op := 2
						if i > 0 {
							op = 0
						}
						stream = append(stream, encodeFrame(frameSpec{Fin: i == len(parts)-1, Rsv1: pmd && i == 0, Opcode: op, Masked: server, Key: [4]byte{3, 1, 4, 1}, Payload: p, DeclLen: -1})...)
					}
					// a second small message behind it: delivered iff the first one was
					stream = append(stream, encodeFrame(frameSpec{Fin: true, Opcode: 2, Masked: server, Key: [4]byte{2, 7, 1, 8}, Payload: []byte{}, DeclLen: -1})...)
					tag := fmt.Sprintf("server=%v limit=%d size=%d shape=%d frames=%d wire=%d", server, limit, size, shape, len(parts), len(wire))
					if err := c13One(c, spec, stream, tag, limit); err != nil {
						return err
					}
				}
			}
			// a message that never ends: every fragment within the limit, the sum far above it, no FIN
			for _, rsv1 := range []bool{false, true} {
				for vi, stream := range unfinishedOversize(server, limit, rsv1) {
					for _, pmd := range []bool{false, true} {
						if rsv1 && !pmd {
							continue // RSV1 without the extension is a protocol error at the first frame: C03
						}
						spec := connSpec{Server: server, PMD: pmd, RLimit: limit}
						if err := c13One(c, spec, stream, fmt.Sprintf("server=%v limit=%d unfinished variant=%d pmd=%v compressed=%v wire=%d", server, limit, vi, pmd, rsv1, len(stream)), limit); err != nil {
							return err
						}
					}
				}
			}
			// declared-only lengths: the header alone, then the stream ends
			for _, decl := range []uint64{1 << 31, 1<<32 + 5, 1<<32 + uint64(limit), 1<<40 + 1, 1<<63 - 1, 1 << 63, 1<<64 - 1, uint64(limit) + 1} {
				var hdr [10]byte
				hdr[0] = 0x82
				hdr[1] = 127
				if server {
					hdr[1] |= 0x80
				}
				binary.BigEndian.PutUint64(hdr[2:], decl)
				stream := append(hdr[:], 1, 2, 3, 4, 5, 6)
				spec := connSpec{Server: server, RLimit: limit}
				if err := c13One(c, spec, stream, fmt.Sprintf("server=%v limit=%d declared=%d", server, limit, decl), limit); err != nil {
					return err
				}
			}
		}
	}
	// "no limit" the natural way: ReadMaxPayloadSize = MaxInt (and one below): everything within it is delivered
	for _, server := range []bool{true, false} {
		for _, limit := range []int{math.MaxInt, math.MaxInt - 1, math.MaxInt32, math.MaxInt32 + 1} {
			for _, pmd := range []bool{false, true} {
				spec := connSpec{Server: server, PMD: pmd, RLimit: limit}
				payload := bytes.Repeat([]byte("within any limit "), 130)
				wire := payload
				if pmd {
					wire = rfc7692Deflate(payload, nil, 6)
				}
				stream := encodeFrame(frameSpec{Fin: true, Rsv1: pmd, Opcode: 2, Masked: server, Key: [4]byte{3, 1, 4, 1}, Payload: wire, DeclLen: -1})
				stream = append(stream, dataFrame(2, true, server, []byte("second"))...)
				if err := c13One(c, spec, stream, fmt.Sprintf("server=%v limit=%d huge-limit pmd=%v", server, limit, pmd), limit); err != nil {
					return err
				}
			}
		}
	}
	// control frames inside a fragmented message that is close to the limit: their payload does not count against it
	for _, server := range []bool{true, false} {
		for _, limit := range []int{126, 1000, 65536} {
			for _, gap := range []int{0, 1, 10, 124} {
				spec := connSpec{Server: server, RLimit: limit}
				first := bytes.Repeat([]byte("f"), limit-gap-1)
				var stream []byte
				stream = append(stream, dataFrame(2, false, server, first)...)
				stream = append(stream, encodeFrame(frameSpec{Fin: true, Opcode: 9, Masked: server, Key: [4]byte{9, 9, 9, 1}, Payload: bytes.Repeat([]byte("p"), 125), DeclLen: -1})...)
				stream = append(stream, encodeFrame(frameSpec{Fin: true, Opcode: 10, Masked: server, Key: [4]byte{9, 9, 9, 2}, Payload: bytes.Repeat([]byte("q"), gap+2), DeclLen: -1})...)
				stream = append(stream, encodeFrame(frameSpec{Fin: true, Opcode: 0, Masked: server, Key: [4]byte{2, 7, 1, 8}, Payload: bytes.Repeat([]byte("l"), gap+1), DeclLen: -1})...)
				stream = append(stream, dataFrame(2, true, server, []byte("second"))...)
				if err := c13One(c, spec, stream, fmt.Sprintf("server=%v limit=%d control frames inside a message %d byte(s) below the limit", server, limit, gap+1), limit); err != nil {
					return err
				}
			}
		}
	}
	return nil
}

// unfinishedOversize: streams of one data frame without FIN followed by continuation frames without FIN; each frame is
// within the limit, the sum is 40 times the limit (5 times for limits above 4096).
// rsv1: the first frame carries RSV1 (a compressed message that is never finished)
func unfinishedOversize(server bool, limit int, rsv1 bool) [][]byte {
	var out [][]byte
	for _, fsz := range []int{limit, (limit + 1) / 2, 1} {
		total := 40 * limit
		if limit > 4096 {
			total = 5 * limit // the model run is quadratic in the number of fragments: keep the long variants small
		}
		if fsz == 1 {
			if limit > 1000 {
				continue
			}
			total = limit + 40
		}
		var stream []byte
		sent := 0
		for i := 0; sent < total; i++ {
			op := 0
			if i == 0 {
				op = 2
			}
			stream = append(stream, encodeFrame(frameSpec{Fin: false, Rsv1: rsv1 && i == 0, Opcode: op, Masked: server, Key: [4]byte{5, 5, 5, byte(i)}, Payload: make([]byte, fsz), DeclLen: -1})...)
			sent += fsz
		}
		out = append(out, stream)
	}
	return out
}

func splitEven(b []byte, k int) [][]byte {
	if k <= 1 {
		return [][]byte{b}
	}
	var out [][]byte
	step := len(b) / k
	for i := 0; i < k-1; i++ {
		out = append(out, b[:step])
		b = b[step:]
	}
	return append(out, b)
}

func c13One(c *Ctx, spec connSpec, stream []byte, tag string, limit int) error {
	obs, conn, _, err := runInbound(spec, cutChunks(c, stream, 2))
	if err != nil {
		return err
	}
	takeover, bits := dpsParams(conn)
	o := specReceive(spec.Server, conn.VerifPD().Enabled, limit, spec.Utf8, takeover, bits, stream)
	replay := map[string]any{"spec": fmt.Sprintf("%+v", spec), "stream_hex_prefix": fmt.Sprintf("%x", head(stream, 64)), "stream_len": len(stream), "tag": tag,
		"observed_kind": obs.Kind, "observed_status": obs.A, "events": len(obs.Events), "alloc": obs.PeakAlloc}
	why, sig, skip := judgeStream(o, obs)
	if why != "" {
		c.oracleFail(why+" ["+tag+"]", sig, replay)
	}
	for _, e := range obs.Events {
		if e.Kind == "msg" && len(e.Payload) > limit {
			c.oracleFail(fmt.Sprintf("delivered a %d-byte message with read limit %d [%s]", len(e.Payload), limit, tag), "oversize-delivered", replay)
		}
	}
	if obs.PeakAlloc > allocBudget(limit, len(stream), obs.Chunks) {
		c.oracleFail(fmt.Sprintf("allocated %d bytes while reading with limit %d [%s]", obs.PeakAlloc, limit, tag), "over-allocation", replay)
	}
	if !skip {
		inboundCase(c, spec, conn, stream, o, obs, tag)
	}
	c.count(tag, true, fmt.Sprintf("limit=%d", limit), "end="+o.Kind, fmt.Sprintf("delivered=%d", len(obs.Events)))
	if len(c.Sum.Samples) < 4 && len(obs.Events) > 0 {
		c.sample(replay)
	}
	return nil
}
