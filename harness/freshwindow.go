package main

import (
	"bytes"
	"fmt"
	"runtime"
	"time"

	"github.com/lxzan/gws"
)

// bitWriter packs DEFLATE bits (RFC 1951 section 3.1.1): data elements LSB first, Huffman codes MSB first.
type bitWriter struct {
	out  []byte
	cur  uint
	nbit uint
}

func (w *bitWriter) bit(b uint) {
	w.cur |= (b & 1) << w.nbit
	w.nbit++
	if w.nbit == 8 {
		w.out = append(w.out, byte(w.cur))
		w.cur, w.nbit = 0, 0
	}
}
func (w *bitWriter) lsb(v uint, n uint) {
	for i := uint(0); i < n; i++ {
		w.bit(v >> i)
	}
}
func (w *bitWriter) msb(v uint, n uint) {
	for i := int(n) - 1; i >= 0; i-- {
		w.bit(v >> uint(i))
	}
}
func (w *bitWriter) align() {
	for w.nbit != 0 {
		w.bit(0)
	}
}

// backrefMessage is the payload of a compressed message (RFC 7692: a DEFLATE stream without the trailing 00 00 ff ff)
// whose FIRST symbols are `copies` back-references of length 10 at distance 4: with an empty history that is an invalid
// stream ("distance too far back"), so a receiver whose window for this direction is empty must fail the connection;
// a receiver that delivers a message has resolved the references against bytes it should not hold.
func backrefMessage(copies int) []byte {
	w := &bitWriter{}
	w.lsb(0, 1) // BFINAL=0
	w.lsb(1, 2) // BTYPE=01 fixed Huffman
	for i := 0; i < copies; i++ {
		w.msb(264-256, 7) // length code 264 = length 10, no extra bits
		w.msb(3, 5)       // distance code 3 = distance 4, no extra bits
	}
	w.msb(0, 7) // end of block
	w.lsb(0, 1) // empty stored block (the sync-flush marker), header only: 00 00 ff ff follows after alignment
	w.lsb(0, 2)
	w.align()
	return w.out
}

// freshWindowScenario: one long-lived server (both takeover directions, single-entry compressor pool) accepts
// connections one after another.  Every connection must start with empty windows (state, through the verif hook) and
// must behave like it (a first message that references history the connection never had is refused).  Every other
// connection receives and sends secrets so that recycled buffers are not empty.
func freshWindowScenario(c *Ctx, rounds int) {
	prev := runtime.GOMAXPROCS(1) // sync.Pool hands a recycled buffer back reliably on one P
	defer runtime.GOMAXPROCS(prev)
	for _, bits := range []int{15, 9} {
		opt := &gws.ServerOption{PermessageDeflate: gws.PermessageDeflate{Enabled: true, ServerContextTakeover: true, ClientContextTakeover: true,
			ServerMaxWindowBits: bits, ClientMaxWindowBits: bits, PoolSize: 1}}
		rt := &routeHandler{}
		rt.up = gws.NewUpgrader(rt, opt)
		ext := map[string][]string{"Sec-WebSocket-Extensions": {fmt.Sprintf("permessage-deflate; server_max_window_bits=%d; client_max_window_bits=%d", bits, bits)}}
		var prevConn *gws.Conn
		for round := 0; round < rounds; round++ {
			tap := newMemConn()
			h := &recHandler{}
			conn, err := serverConnWith(rt.up, tap, ext)
			if err != nil {
				c.oracleFail("handshake failed: "+err.Error(), "fresh-window-setup", nil)
				return
			}
			rt.bind(conn, h)
			tag := fmt.Sprintf("fresh-window bits=%d round=%d", bits, round)
			cps, en, dps, den := conn.VerifWindows()
			if !en || !den || len(cps) != 0 || len(dps) != 0 {
				c.oracleFail(fmt.Sprintf("a new connection starts with a non-empty or disabled window (cps %d bytes, dps %d bytes) [%s]", len(cps), len(dps), tag),
					"window-not-fresh", map[string]any{"tag": tag, "dps_prefix": fmt.Sprintf("%q", head(dps, 48))})
			}
			secret := bytes.Repeat([]byte(fmt.Sprintf("secret-of-connection-%d-", round)), 40)
			if round%2 == 0 {
				// the first compressed message of a connection must be decodable by a peer whose history is EMPTY, although the
				// compressor it comes from (pool of one) has just served other connections that kept a context; the second
				// message makes that compressor hold this connection's window for the next round
				common := bytes.Repeat([]byte("text-every-connection-sends-"), 30)
				first := append(append([]byte{}, common...), secret[:200]...)
				nb := tap.numWrites()
				_ = conn.WriteMessage(gws.OpcodeText, first)
				rx := &rfcReceiver{server: true, takeover: true, bits: bits}
				if ms, problem := rx.receive(joinSlices(tap.writeCalls()[nb:])); problem != "" || len(ms) != 1 || !bytes.Equal(ms[0].Payload, first) {
					c.oracleFail(fmt.Sprintf("the first compressed message of a connection cannot be decoded by a peer with an empty history (%s): the shared compressor still sees a window of an earlier connection [%s]", problem, tag),
						"window-two-owners", map[string]any{"tag": tag})
				}
				_ = conn.WriteMessage(gws.OpcodeText, first)
				_ = conn.WriteMessage(gws.OpcodeText, secret)
				// the application still holds the PREVIOUS (finished) connection and writes on it: the calls fail, and they
				// must not reach into a window that now belongs to this connection
				if prevConn != nil {
					before, _, _, _ := conn.VerifWindows()
					stale := bytes.Repeat([]byte("written-on-a-finished-connection-"), 30)
					e1 := prevConn.WriteFile(gws.OpcodeBinary, bytes.NewReader(stale))
					e2 := prevConn.WriteMessage(gws.OpcodeText, stale)
					after, _, _, _ := conn.VerifWindows()
					if e1 == nil || e2 == nil {
						c.oracleFail(fmt.Sprintf("writes on a finished connection succeeded (%v, %v) [%s]", e1, e2, tag), "write-after-close", map[string]any{"tag": tag})
					}
					if !bytes.Equal(before, after) {
						c.oracleFail(fmt.Sprintf("a write call on a FINISHED connection changed the compression window of the connection opened after it (%d -> %d bytes) [%s]", len(before), len(after), tag),
							"window-two-owners", map[string]any{"tag": tag})
					}
				}
				tap.feed(encodeFrame(frameSpec{Fin: true, Rsv1: true, Opcode: 1, Masked: true, Key: [4]byte{9, 8, 7, 6}, Payload: rfc7692Deflate(secret, nil, 6), DeclLen: -1}))
				tap.feed(dataFrame(8, true, true, []byte{0x03, 0xe8}))
			} else {
				tap.feed(encodeFrame(frameSpec{Fin: true, Rsv1: true, Opcode: 2, Masked: true, Key: [4]byte{1, 2, 3, 4}, Payload: backrefMessage(20), DeclLen: -1}))
				tap.feed(dataFrame(8, true, true, []byte{0x03, 0xe8}))
			}
			tap.setEOF()
			if !runWithTimeout(5*time.Second, conn.ReadLoop) {
				c.oracleFail("read loop did not return ["+tag+"]", "read-hang", map[string]any{"tag": tag})
				return
			}
			var msgs [][]byte
			var closeErr error
			for _, e := range h.events() {
				switch e.Kind {
				case "msg":
					msgs = append(msgs, e.Payload)
				case "close":
					closeErr = e.Err
				}
			}
			if round%2 == 0 {
				if len(msgs) != 1 || !bytes.Equal(msgs[0], secret) {
					c.oracleFail(fmt.Sprintf("the first compressed message of a connection was not delivered intact (%d messages) [%s]", len(msgs), tag), "fresh-window-first-message", map[string]any{"tag": tag})
				}
			} else {
				if len(msgs) != 0 {
					c.oracleFail(fmt.Sprintf("a message that back-references history the connection never received was delivered: %q [%s]", head(msgs[0], 60), tag),
						"window-not-fresh-behaviour", map[string]any{"tag": tag, "delivered": fmt.Sprintf("%q", head(msgs[0], 200))})
				} else if isCE, _, _, _ := closeInfo(closeErr); isCE {
					c.oracleFail("a message that back-references history the connection never received was skipped and the peer's Close accepted ["+tag+"]",
						"window-not-fresh-behaviour", map[string]any{"tag": tag})
				}
			}
			prevConn = conn
			c.count(tag, true, "kind=fresh-window")
		}
	}
}
