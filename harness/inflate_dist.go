package main

// A small RFC 1951 inflater written for the harness (independent of both compress/flate and klauspost): besides the
// output it reports the largest back-reference distance used, so that "no back-reference reaches further than
// 2^max_window_bits" (C02) can be checked on the real wire bytes.

import (
	"errors"
)

type bitReader struct {
	b    []byte
	pos  int
	bit  uint32
	nbit uint
}

func (r *bitReader) need(n uint) bool {
	for r.nbit < n {
		if r.pos >= len(r.b) {
			return false
		}
		r.bit |= uint32(r.b[r.pos]) << r.nbit
		r.pos++
		r.nbit += 8
	}
	return true
}
func (r *bitReader) bits(n uint) (uint32, bool) {
	if n == 0 {
		return 0, true
	}
	if !r.need(n) {
		return 0, false
	}
	v := r.bit & (1<<n - 1)
	r.bit >>= n
	r.nbit -= n
	return v, true
}

type huff struct {
	count  [16]int
	symbol []int
}

func buildHuff(lengths []int) (*huff, bool) {
	h := &huff{symbol: make([]int, len(lengths))}
	for _, l := range lengths {
		h.count[l]++
	}
	if h.count[0] == len(lengths) {
		return h, true
	}
	left := 1
	for l := 1; l <= 15; l++ {
		left <<= 1
		left -= h.count[l]
		if left < 0 {
			return nil, false
		}
	}
	var offs [16]int
	for l := 1; l < 15; l++ {
		offs[l+1] = offs[l] + h.count[l]
	}
	for s, l := range lengths {
		if l != 0 {
			h.symbol[offs[l]] = s
			offs[l]++
		}
	}
	return h, true
}

func (r *bitReader) decode(h *huff) (int, bool) {
	code, first, index := 0, 0, 0
	for l := 1; l <= 15; l++ {
		b, ok := r.bits(1)
		if !ok {
			return 0, false
		}
		code |= int(b)
		count := h.count[l]
		if code-count < first {
			return h.symbol[index+(code-first)], true
		}
		index += count
		first += count
		first <<= 1
		code <<= 1
	}
	return 0, false
}

var lenBase = []int{3, 4, 5, 6, 7, 8, 9, 10, 11, 13, 15, 17, 19, 23, 27, 31, 35, 43, 51, 59, 67, 83, 99, 115, 131, 163, 195, 227, 258}
var lenExtra = []uint{0, 0, 0, 0, 0, 0, 0, 0, 1, 1, 1, 1, 2, 2, 2, 2, 3, 3, 3, 3, 4, 4, 4, 4, 5, 5, 5, 5, 0}
var distBase = []int{1, 2, 3, 4, 5, 7, 9, 13, 17, 25, 33, 49, 65, 97, 129, 193, 257, 385, 513, 769, 1025, 1537, 2049, 3073, 4097, 6145, 8193, 12289, 16385, 24577}
var distExtra = []uint{0, 0, 0, 0, 1, 1, 2, 2, 3, 3, 4, 4, 5, 5, 6, 6, 7, 7, 8, 8, 9, 9, 10, 10, 11, 11, 12, 12, 13, 13}

// inflateMaxDist inflates a raw deflate stream (which must end with a final block) with a preset dictionary.
func inflateMaxDist(data, dict []byte, limit int) (out []byte, maxDist int, err error) {
	r := &bitReader{b: data}
	buf := append([]byte(nil), dict...)
	base := len(dict)
	var fixedLit, fixedDist *huff
	for {
		final, ok := r.bits(1)
		if !ok {
			return nil, 0, errors.New("truncated")
		}
		typ, ok := r.bits(2)
		if !ok {
			return nil, 0, errors.New("truncated")
		}
		var lit, dist *huff
		switch typ {
		case 0:
			r.bit, r.nbit = 0, 0
			if r.pos+4 > len(r.b) {
				return nil, 0, errors.New("truncated stored block")
			}
			n := int(r.b[r.pos]) | int(r.b[r.pos+1])<<8
			nn := int(r.b[r.pos+2]) | int(r.b[r.pos+3])<<8
			if n != ^nn&0xffff {
				return nil, 0, errors.New("stored block length check")
			}
			r.pos += 4
			if r.pos+n > len(r.b) {
				return nil, 0, errors.New("truncated stored data")
			}
			buf = append(buf, r.b[r.pos:r.pos+n]...)
			r.pos += n
		case 1:
			if fixedLit == nil {
				l := make([]int, 288)
				for i := range l {
					switch {
					case i < 144:
						l[i] = 8
					case i < 256:
						l[i] = 9
					case i < 280:
						l[i] = 7
					default:
						l[i] = 8
					}
				}
				fixedLit, _ = buildHuff(l)
				d := make([]int, 30)
				for i := range d {
					d[i] = 5
				}
				fixedDist, _ = buildHuff(d)
			}
			lit, dist = fixedLit, fixedDist
		case 2:
			hl, ok1 := r.bits(5)
			hd, ok2 := r.bits(5)
			hc, ok3 := r.bits(4)
			if !ok1 || !ok2 || !ok3 {
				return nil, 0, errors.New("truncated")
			}
			nlen, ndist, ncode := int(hl)+257, int(hd)+1, int(hc)+4
			order := []int{16, 17, 18, 0, 8, 7, 9, 6, 10, 5, 11, 4, 12, 3, 13, 2, 14, 1, 15}
			cl := make([]int, 19)
			for i := 0; i < ncode; i++ {
				v, ok := r.bits(3)
				if !ok {
					return nil, 0, errors.New("truncated")
				}
				cl[order[i]] = int(v)
			}
			ch, ok := buildHuff(cl)
			if !ok {
				return nil, 0, errors.New("bad code lengths")
			}
			lengths := make([]int, nlen+ndist)
			for i := 0; i < nlen+ndist; {
				sym, ok := r.decode(ch)
				if !ok {
					return nil, 0, errors.New("bad code length symbol")
				}
				switch {
				case sym < 16:
					lengths[i] = sym
					i++
				default:
					prev, rep := 0, 0
					switch sym {
					case 16:
						if i == 0 {
							return nil, 0, errors.New("repeat with no previous length")
						}
						prev = lengths[i-1]
						v, _ := r.bits(2)
						rep = 3 + int(v)
					case 17:
						v, _ := r.bits(3)
						rep = 3 + int(v)
					case 18:
						v, _ := r.bits(7)
						rep = 11 + int(v)
					}
					if i+rep > nlen+ndist {
						return nil, 0, errors.New("too many lengths")
					}
					for ; rep > 0; rep-- {
						lengths[i] = prev
						i++
					}
				}
			}
			var ok1b, ok2b bool
			lit, ok1b = buildHuff(lengths[:nlen])
			dist, ok2b = buildHuff(lengths[nlen:])
			if !ok1b || !ok2b {
				return nil, 0, errors.New("bad dynamic tables")
			}
		default:
			return nil, 0, errors.New("reserved block type")
		}
		if lit != nil {
			for {
				sym, ok := r.decode(lit)
				if !ok {
					return nil, 0, errors.New("bad literal/length code")
				}
				if sym < 256 {
					buf = append(buf, byte(sym))
				} else if sym == 256 {
					break
				} else {
					sym -= 257
					if sym >= 29 {
						return nil, 0, errors.New("bad length symbol")
					}
					eb, _ := r.bits(lenExtra[sym])
					length := lenBase[sym] + int(eb)
					ds, ok := r.decode(dist)
					if !ok || ds >= 30 {
						return nil, 0, errors.New("bad distance code")
					}
					db, _ := r.bits(distExtra[ds])
					d := distBase[ds] + int(db)
					if d > len(buf) {
						return nil, 0, errors.New("distance reaches before the start of the history")
					}
					if d > maxDist {
						maxDist = d
					}
					for k := 0; k < length; k++ {
						buf = append(buf, buf[len(buf)-d])
					}
				}
				if len(buf)-base > limit {
					return nil, maxDist, errors.New("output limit")
				}
			}
		}
		if final == 1 {
			break
		}
	}
	return buf[base:], maxDist, nil
}
