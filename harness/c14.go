package main

import (
	"bufio"
	"bytes"
	"crypto/sha256"
	"errors"
	"fmt"
	"net"
	"net/http"
	"runtime"
	"time"

	"github.com/lxzan/gws"
)

func init() { runners["C14"] = runC14 }

// scribble: take a buffer of every size class out of the shared pool, fill its whole capacity with a poison byte and put it
// back - several times, so that any buffer gws released early is overwritten while somebody still looks at it.
func scribble(rounds int) {
	for r := 0; r < rounds; r++ {
		var held []*bytes.Buffer
		for size := 64; size <= 256*1024; size *= 2 {
			for k := 0; k < 3; k++ {
				b := gws.VerifPoolGet(size)
				raw := b.Bytes()[:b.Cap()]
				for i := range raw {
					raw[i] = 0xEE
				}
				held = append(held, b)
			}
		}
		for _, b := range held {
			gws.VerifPoolPut(b)
		}
	}
}

func runC14(c *Ctx) error {
	c.Sum.Rule = "(a) caller payloads: SHA-256 of every slice passed to every write API (both roles - clients mask -, compression on/off, sizes 0..300000, async after the completion callback, broadcast after Close) before vs after; (b) delivered messages, ping and pong payloads held by the application across later traffic while a scribbler repeatedly takes every size class out of the shared pool, poisons it and puts it back (GOMAXPROCS=1 makes sync.Pool reuse deterministic): bytes unchanged until Message.Close; (c) broadcast frames shared by several connections under the scribbler; (d) pooled compression windows: a connection opened after another one was torn down starts with an empty window and the torn-down connection's window is not visible through it; non-trivial = all; distinct by scenario"
	old := runtime.GOMAXPROCS(1)
	defer runtime.GOMAXPROCS(old)
	sizes := []int{0, 1, 125, 126, 4000, 65536, 200, 131073, 10, 300000, 50, 5000, 3} // small payloads after large ones: the window slides over what the large one left
	apis := []string{"message", "writev", "async", "writevasync", "file", "broadcast", "ping", "string"}
	// ---- (a)
	for _, server := range []bool{true, false} {
		for _, pmd := range []bool{false, true} {
			spec := connSpec{Server: server, PMD: pmd, SrvTO: pmd, CliTO: pmd, SrvBits: 12, CliBits: 12}
			conn, tap, err := spec.open(&recHandler{})
			if err != nil {
				return err
			}
			type given struct {
				slices [][]byte
				sums   [][32]byte
				tag    string
			}
			var recent []given     // payloads of the last calls: must stay intact across LATER calls too
			var originals [][]byte // private copies of every data payload that was accepted, in call order
			for _, n := range sizes {
				for _, api := range apis {
					if (api == "ping") && n > 125 {
						continue
					}
					if c.quick() && n > 70000 && api != "message" && api != "file" && api != "broadcast" {
						continue
					}
					p := textPayload(c, n, nil)
					slices := splitSlices(c, p, 1+c.Rng.Intn(3))
					if api != "writev" && api != "writevasync" {
						slices = [][]byte{p}
					}
					var sums [][32]byte
					for _, s := range slices {
						sums = append(sums, sha256.Sum256(s))
					}
					op := sendOp{API: api, Opcode: 1, Slices: slices}
					if api == "ping" {
						op.Opcode = 9
					}
					if api == "file" {
						op.Reader = newChunkReader([][]byte{p}, "sep")
					}
					res := rawSend(conn, op)
					scribble(1)
					tag := fmt.Sprintf("payload server=%v pmd=%v api=%s len=%d", server, pmd, api, n)
					for i, s := range slices {
						if sha256.Sum256(s) != sums[i] {
							c.oracleFail("a payload slice passed to a write call was modified ["+tag+"]", "payload-mutated", map[string]any{"tag": tag, "slice": i, "result": res})
						}
					}
					if api == "file" && !bytes.Equal(joinSlices(op.Reader.chunks0()), p) {
						c.oracleFail("data behind the reader given to WriteFile was modified ["+tag+"]", "payload-mutated", map[string]any{"tag": tag})
					}
					// earlier payloads: a later call must not write into them either
					for _, g := range recent {
						for i, s := range g.slices {
							if sha256.Sum256(s) != g.sums[i] {
								c.oracleFail("a payload slice passed to an EARLIER write call was modified by a later one ["+g.tag+"; later call: "+tag+"]", "payload-mutated-later",
									map[string]any{"tag": g.tag, "later": tag, "slice": i})
							}
						}
					}
					if (res == 0 || res == 100) && api != "ping" {
						originals = append(originals, append([]byte(nil), p...))
					}
					recent = append(recent, given{slices, sums, tag})
					if len(recent) > 4 {
						// the caller reuses its oldest buffer: gws must not be reading it any more
						for _, s := range recent[0].slices {
							for i := range s {
								s[i] = 0x55
							}
						}
						recent = recent[1:]
					}
					c.count(tag, true, "kind=payload", "api="+api)
				}
			}
			// what the peer decodes is what the application passed at the time of each call, although the caller has
			// reused most of its buffers since
			{
				rx := &rfcReceiver{server: server}
				if pd := conn.VerifPD(); pd.Enabled {
					if server {
						rx.takeover, rx.bits = pd.ServerContextTakeover, pd.ServerMaxWindowBits
					} else {
						rx.takeover, rx.bits = pd.ClientContextTakeover, pd.ClientMaxWindowBits
					}
				}
				tag := fmt.Sprintf("payload server=%v pmd=%v whole connection", server, pmd)
				msgs, problem := rx.receive(tap.written())
				var data [][]byte
				for _, m := range msgs {
					if m.Opcode < 8 {
						data = append(data, m.Payload)
					}
				}
				switch {
				case problem != "":
					c.oracleFail("the peer cannot decode the connection's output after the caller reused its buffers: "+problem+" ["+tag+"]", "payload-read-later", map[string]any{"tag": tag})
				case len(data) != len(originals):
					c.oracleFail(fmt.Sprintf("%d data messages on the wire, %d accepted calls [%s]", len(data), len(originals), tag), "payload-read-later", map[string]any{"tag": tag})
				default:
					for i := range data {
						if !bytes.Equal(data[i], originals[i]) {
							c.oracleFail(fmt.Sprintf("message %d decodes to different bytes than the application passed (the caller reused its buffers after the calls returned) [%s]", i, tag), "payload-read-later", map[string]any{"tag": tag, "index": i})
							break
						}
					}
				}
			}
			_ = conn.WriteClose(1000, nil)
		}
	}
	// ---- (a2) the reason passed to WriteClose belongs to the caller again when the call returns: whatever the connection
	// keeps about its end (the error handed to OnClose) must not change when the caller reuses that buffer
	for _, server := range []bool{true, false} {
		h := &recHandler{}
		conn, tap, err := connSpec{Server: server}.open(h)
		if err != nil {
			return err
		}
		reason := []byte("reason-owned-by-the-caller-0123456789")
		_ = conn.WriteClose(4001, reason)
		tap.setEOF()
		runWithTimeout(5*time.Second, conn.ReadLoop)
		var cerr error
		for _, e := range h.events() {
			if e.Kind == "close" {
				cerr = e.Err
			}
		}
		tag := fmt.Sprintf("close reason reused after WriteClose server=%v", server)
		before := fmt.Sprintf("%v|%+v", cerr, cerr)
		var ce *gws.CloseError
		var rcopy []byte
		if errors.As(cerr, &ce) {
			rcopy = append([]byte(nil), ce.Reason...)
		}
		for i := range reason {
			reason[i] = 'X'
		}
		after := fmt.Sprintf("%v|%+v", cerr, cerr)
		if before != after || (ce != nil && !bytes.Equal(rcopy, ce.Reason)) {
			c.oracleFail(fmt.Sprintf("the error delivered to OnClose changed when the caller reused the reason buffer it had passed to WriteClose: %q -> %q [%s]", before, after, tag),
				"payload-read-later", map[string]any{"tag": tag})
		}
		c.count(tag, true, "kind=close-reason-reuse")
	}
	// ---- (a3) the caller's memory BEHIND a slice it passed (its spare capacity) is the caller's too: slices cut out of one
	// scratch buffer, not adjacent, text with the encoding check on (the check looks at all slices together)
	for _, server := range []bool{true, false} {
		for _, pmd := range []bool{false, true} {
			for _, api := range []string{"writev", "writevasync"} {
				conn, tap, err := connSpec{Server: server, PMD: pmd, Utf8: true}.open(&recHandler{})
				if err != nil {
					return err
				}
				scratch := []byte("head|....GUARD-BYTES-OWNED-BY-THE-CALLER....|middle part \xc3\xa9|tail-of-the-message")
				before := append([]byte(nil), scratch...)
				i1, i2 := bytes.IndexByte(scratch, '|')+1, bytes.LastIndexByte(scratch, '|')
				j1 := bytes.Index(scratch, []byte("|middle"))
				s0, s1, s2 := scratch[:i1], scratch[j1+1:i2+1], scratch[i2+1:] // cap(s0) reaches to the end of scratch
				want := append(append(append([]byte(nil), s0...), s1...), s2...)
				res := rawSend(conn, sendOp{API: api, Opcode: 1, Slices: [][]byte{s0, s1, s2}})
				tag := fmt.Sprintf("slices with spare capacity server=%v pmd=%v api=%s", server, pmd, api)
				if !bytes.Equal(scratch, before) {
					c.oracleFail(fmt.Sprintf("the caller's buffer behind the first slice was modified by the call: %q -> %q [%s]", before, scratch, tag), "payload-modified", map[string]any{"tag": tag})
				}
				rx := &rfcReceiver{server: server}
				if pd := conn.VerifPD(); pd.Enabled {
					rx.bits = 15
				}
				ms, problem := rx.receive(tap.written())
				if res != 0 || problem != "" || len(ms) != 1 || !bytes.Equal(ms[0].Payload, want) {
					c.oracleFail(fmt.Sprintf("the message on the wire is not the concatenation of the slices passed (result %d, %s) [%s]", res, problem, tag), "payload-modified", map[string]any{"tag": tag})
				}
				_ = tap.Close()
				c.count(tag, true, "kind=spare-capacity")
			}
		}
	}
	// ---- (b) held messages under the scribbler
	for _, server := range []bool{true, false} {
		for _, pmd := range []bool{false, true} {
			for _, parallel := range []bool{false, true} {
				h := &recHandler{keepMsg: true}
				type heldPing struct{ p, copy []byte }
				var pings []heldPing
				h.onPing = func(s *gws.Conn, p []byte) { pings = append(pings, heldPing{p, append([]byte(nil), p...)}) }
				spec := connSpec{Server: server, PMD: pmd, Parallel: parallel, ParallelN: 4, RLimit: 400000}
				conn, tap, err := spec.open(h)
				if err != nil {
					return err
				}
				var stream []byte
				var want [][]byte
				for i, n := range []int{0, 5, 130, 1000, 70000, 200, 131072, 17, 300000, 64} {
					p := textPayload(c, n, nil)
					want = append(want, p)
					wire := p
					comp := pmd && i%2 == 0
					if comp {
						wire = rfc7692Deflate(p, nil, 6)
					}
					parts := splitEven(wire, 1+i%3)
					for j, part := range parts {
						opc := 2
						if j > 0 {
							opc = 0
						}
						stream = append(stream, encodeFrame(frameSpec{Fin: j == len(parts)-1, Rsv1: comp && j == 0, Opcode: opc, Masked: server, Key: [4]byte{byte(i), 2, 3, 4}, Payload: part, DeclLen: -1})...)
					}
					stream = append(stream, encodeFrame(frameSpec{Fin: true, Opcode: 9, Masked: server, Key: [4]byte{9, 9, 9, byte(i)}, Payload: head(p, 100), DeclLen: -1})...)
				}
				tap.feed(cutChunks(c, stream, 2)...)
				tap.setEOF()
				okDone := runWithTimeout(30*time.Second, conn.ReadLoop)
				for i := 0; i < 2000 && len(h.events()) < 2+2*len(want); i++ {
					time.Sleep(time.Millisecond)
				}
				scribble(3)
				// more traffic on another connection reusing the pools
				{
					conn2, tap2, err := spec.open(&recHandler{})
					if err == nil {
						tap2.feed(stream)
						tap2.setEOF()
						runWithTimeout(30*time.Second, conn2.ReadLoop)
					}
				}
				scribble(3)
				tag := fmt.Sprintf("held server=%v pmd=%v parallel=%v", server, pmd, parallel)
				if !okDone {
					c.oracleFail("ReadLoop did not return ["+tag+"]", "readloop-hang", map[string]any{"tag": tag})
					continue
				}
				h.mu.Lock()
				held := append([]*gws.Message(nil), h.held...)
				h.mu.Unlock()
				var recorded [][]byte
				for _, e := range h.events() {
					if e.Kind == "msg" {
						recorded = append(recorded, e.Payload)
					}
				}
				if len(held) != len(want) {
					c.oracleFail(fmt.Sprintf("%d messages delivered, %d sent [%s]", len(held), len(want), tag), "message-lost", map[string]any{"tag": tag})
				}
				for i, m := range held {
					if i < len(recorded) && !bytes.Equal(m.Bytes(), recorded[i]) {
						c.oracleFail(fmt.Sprintf("bytes of delivered message %d (len %d) changed while the application still held it [%s]", i, len(recorded[i]), tag), "held-message-corrupted",
							map[string]any{"tag": tag, "index": i, "len": len(recorded[i])})
					}
				}
				for i, hp := range pings {
					if !bytes.Equal(hp.p, hp.copy) {
						c.oracleFail(fmt.Sprintf("ping payload %d changed after the callback returned it [%s]", i, tag), "held-ping-corrupted", map[string]any{"tag": tag})
					}
				}
				for _, m := range held {
					_ = m.Close()
				}
				c.count(tag, true, "kind=held")
			}
		}
	}
	// ---- (c) shared broadcast frames
	for _, pmd := range []bool{false, true} {
		var conns []*gws.Conn
		var taps []*memConn
		for i := 0; i < 5; i++ {
			spec := connSpec{Server: true, PMD: pmd, SrvTO: pmd && i%2 == 0, CliTO: pmd && i%2 == 0, SrvBits: 11, CliBits: 11}
			cn, tp, err := spec.open(&recHandler{})
			if err != nil {
				return err
			}
			conns, taps = append(conns, cn), append(taps, tp)
		}
		for round := 0; round < 6; round++ {
			p := textPayload(c, []int{10, 600, 5000, 70000, 0, 200}[round], nil)
			b := gws.NewBroadcaster(gws.OpcodeText, p)
			for _, cn := range conns {
				_ = b.Broadcast(cn)
			}
			if round%2 == 0 {
				_ = b.Close() // Close while sends may still be pending
			}
			for _, cn := range conns {
				done := make(chan struct{})
				cn.Async(func() { close(done) })
				<-done
			}
			if round%2 == 1 {
				_ = b.Close()
			}
			scribble(2)
			for i, tp := range taps {
				rx := &rfcReceiver{server: true}
				pd := conns[i].VerifPD()
				_ = pd
				fs, rest, err := parseFrames(tp.written())
				tag := fmt.Sprintf("broadcast pmd=%v conn=%d round=%d len=%d", pmd, i, round, len(p))
				if err != nil || len(rest) != 0 || len(fs) == 0 {
					c.oracleFail("broadcast wire is not whole frames ["+tag+"]", "broadcast-wire", map[string]any{"tag": tag})
					continue
				}
				last := fs[len(fs)-1]
				got := last.Payload
				if last.Rsv1 {
					out, err := rfc7692Inflate(got, nil)
					if err != nil {
						c.oracleFail("broadcast frame does not inflate ["+tag+"]", "broadcast-corrupted", map[string]any{"tag": tag})
						continue
					}
					got = out
				}
				_ = rx
				if !bytes.Equal(got, p) {
					c.oracleFail("a receiver of a broadcast got different bytes ["+tag+"]", "broadcast-corrupted", map[string]any{"tag": tag})
				}
				c.count(tag, true, "kind=broadcast")
			}
		}
	}
	// ---- (c2)
	if err := parkedBroadcastScenario(c); err != nil {
		return err
	}
	if err := sharedBroadcastFrameScenario(c); err != nil {
		return err
	}
	// ---- (c3) the pooled bufio.Reader: a reader the APPLICATION owns (passed to UpgradeFromConn) stays the application's
	// after a rejected handshake; a later connection that takes its reader from the pool must not end up sharing it
	if err := appOwnedReaderScenario(c); err != nil {
		return err
	}
	// ---- (c4) error paths of the streamed send give every pooled buffer back at most once: after a WriteFile that failed at
	// its k-th transport write, two buffers taken from the pool are two different buffers
	for _, server := range []bool{true, false} {
		for _, pmd := range []bool{true, false} {
			for k := 0; k < 7; k++ {
				spec := connSpec{Server: server, PMD: pmd}
				conn, tap, err := spec.open(&recHandler{})
				if err != nil {
					return err
				}
				tap.mu.Lock()
				tap.failWrite = tap.nWrite + k
				tap.mu.Unlock()
				data := randBytes(c.Rng, 3*131072+77)
				_ = conn.WriteFile(gws.OpcodeBinary, newChunkReader(splitEven(data, 3), "sep"))
				_ = tap.Close()
				tag := fmt.Sprintf("pool after a failed streamed send server=%v pmd=%v fault at write %d", server, pmd, k)
				for _, size := range []int{131072, 262144, 65536} {
					var taken []*bytes.Buffer
					seen := map[*byte]bool{}
					dup := false
					for i := 0; i < 6; i++ {
						b := gws.VerifPoolGet(size)
						raw := b.Bytes()[:1]
						if seen[&raw[0]] {
							dup = true
						}
						seen[&raw[0]] = true
						taken = append(taken, b)
					}
					if dup {
						c.oracleFail(fmt.Sprintf("the pool handed out one %d-byte buffer to two owners [%s]", size, tag), "pool-double-put", map[string]any{"tag": tag, "size": size})
					}
					for _, b := range taken {
						gws.VerifPoolPut(b)
					}
				}
				c.count(tag, true, "kind=pool-after-failed-stream")
			}
		}
	}
	// ---- (d) pooled windows: state and behaviour of every new connection of a long-lived server
	freshWindowScenario(c, 24)
	return nil
}

// parkedBroadcastScenario: a broadcast job that has started but cannot finish (another writer of that connection is
// parked inside the transport) while the Broadcaster is closed - as documented, after the Broadcast calls returned - and
// the pool is scribbled over: the frame it finally writes must still be the broadcast message, exactly once.
func parkedBroadcastScenario(c *Ctx) error {
	prev := runtime.GOMAXPROCS(1) // sync.Pool hands a recycled buffer back reliably on one P
	defer runtime.GOMAXPROCS(prev)
	for _, pmd := range []bool{false, true} {
		for _, n := range []int{300, 5000} {
			specA := connSpec{Server: true, PMD: pmd}
			ca, ta, err := specA.open(&recHandler{})
			if err != nil {
				return err
			}
			cb, tb, err := specA.open(&recHandler{})
			if err != nil {
				return err
			}
			gate := make(chan struct{}, 16)
			entered := make(chan int, 16)
			ta.mu.Lock()
			ta.gate, ta.gateEntered = gate, entered
			ta.mu.Unlock()
			blockerDone := make(chan error, 1)
			go func() { blockerDone <- ca.WriteMessage(gws.OpcodeBinary, []byte("blocker")) }()
			<-entered
			p := textPayload(c, n, nil)
			b := gws.NewBroadcaster(gws.OpcodeText, p)
			_ = b.Broadcast(ca)
			_ = b.Broadcast(cb)
			bdone := make(chan struct{})
			cb.Async(func() { close(bdone) })
			<-bdone
			for i := 0; i < 100; i++ {
				runtime.Gosched()
			}
			time.Sleep(5 * time.Millisecond)
			_ = b.Close()
			scribble(2)
			for i := 0; i < 8; i++ {
				gate <- struct{}{}
			}
			<-blockerDone
			adone := make(chan struct{})
			ca.Async(func() { close(adone) })
			select {
			case <-adone:
			case <-time.After(5 * time.Second):
			}
			tag := fmt.Sprintf("broadcast behind a parked writer pmd=%v len=%d", pmd, n)
			for who, tp := range map[string]*memConn{"parked": ta, "idle": tb} {
				fs, rest, perr := parseFrames(tp.written())
				replay := map[string]any{"tag": tag, "connection": who, "wire_prefix": fmt.Sprintf("%x", head(tp.written(), 64))}
				if perr != nil || len(rest) != 0 || len(fs) == 0 {
					c.oracleFail(fmt.Sprintf("wire of the %s connection is not whole frames [%s]", who, tag), "broadcast-wire", replay)
					continue
				}
				last := fs[len(fs)-1]
				got := last.Payload
				if last.Rsv1 {
					if out, err := rfc7692Inflate(got, nil); err == nil {
						got = out
					} else {
						got = nil
					}
				}
				wantFrames := map[string]int{"parked": 2, "idle": 1}[who]
				if len(fs) != wantFrames || last.Opcode != 1 || !bytes.Equal(got, p) {
					c.oracleFail(fmt.Sprintf("the %s connection got %d frames, the last one (opcode %d, %d bytes) is not the broadcast message [%s]", who, len(fs), last.Opcode, len(last.Payload), tag),
						"broadcast-corrupted", replay)
				}
			}
			c.count(tag, true, "kind=broadcast-parked")
		}
	}
	return nil
}

// sharedBroadcastFrameScenario: one Broadcaster serves two connections of the same role; the first connection's transport
// has accepted half of the frame when the second connection's job runs to completion, then takes the rest.  Both wires
// must hold exactly one frame that decodes (unmask with the key in its own header, inflate) to the broadcast payload.
func sharedBroadcastFrameScenario(c *Ctx) error {
	for _, server := range []bool{false, true} {
		for _, pmd := range []bool{false, true} {
			for _, n := range []int{100, 300, 70000} {
				spec := connSpec{Server: server, PMD: pmd}
				ca, ta, err := spec.open(&recHandler{})
				if err != nil {
					return err
				}
				cb, tb, err := spec.open(&recHandler{})
				if err != nil {
					return err
				}
				gate := make(chan struct{}, 4)
				entered := make(chan int, 4)
				ta.mu.Lock()
				ta.gate, ta.gateEntered, ta.lateCopy = gate, entered, true
				ta.mu.Unlock()
				p := textPayload(c, n, nil)
				b := gws.NewBroadcaster(gws.OpcodeText, p)
				_ = b.Broadcast(ca)
				select {
				case <-entered:
				case <-time.After(5 * time.Second):
				}
				_ = b.Broadcast(cb)
				bdone := make(chan struct{})
				cb.Async(func() { close(bdone) })
				select {
				case <-bdone:
				case <-time.After(5 * time.Second):
				}
				gate <- struct{}{}
				adone := make(chan struct{})
				ca.Async(func() { close(adone) })
				select {
				case <-adone:
				case <-time.After(5 * time.Second):
				}
				_ = b.Close()
				tag := fmt.Sprintf("one broadcast frame, two %s connections, overlapping transport writes pmd=%v len=%d", roleName(server), pmd, n)
				for who, tp := range map[string]*memConn{"first (slow transport)": ta, "second": tb} {
					fs, rest, perr := parseFrames(tp.written())
					replay := map[string]any{"tag": tag, "connection": who, "wire_prefix": fmt.Sprintf("%x", head(tp.written(), 48))}
					ok := perr == nil && len(rest) == 0 && len(fs) == 1 && fs[0].Opcode == 1 && fs[0].Masked == !server
					if ok {
						got := fs[0].Payload
						if fs[0].Rsv1 {
							out, ierr := rfc7692Inflate(got, nil)
							ok = ierr == nil
							got = out
						}
						ok = ok && bytes.Equal(got, p)
					}
					if !ok {
						c.oracleFail(fmt.Sprintf("the frame on the %s connection does not decode to the broadcast payload [%s]", who, tag), "broadcast-shared-frame", replay)
					}
				}
				c.count(tag, true, "kind=broadcast-shared-frame")
			}
		}
	}
	return nil
}

type fakeHijacker struct {
	conn net.Conn
	hdr  http.Header
}

func (f *fakeHijacker) Header() http.Header         { return f.hdr }
func (f *fakeHijacker) Write(b []byte) (int, error) { return f.conn.Write(b) }
func (f *fakeHijacker) WriteHeader(int)             {}
func (f *fakeHijacker) Hijack() (net.Conn, *bufio.ReadWriter, error) {
	return f.conn, nil, nil
}

func appOwnedReaderScenario(c *Ctx) error {
	prev := runtime.GOMAXPROCS(1)
	defer runtime.GOMAXPROCS(prev)
	mkReq := func(valid bool) *http.Request {
		hd := http.Header{}
		hd.Set("Connection", "Upgrade")
		hd.Set("Upgrade", "websocket")
		hd.Set("Sec-WebSocket-Version", "13")
		if valid {
			hd.Set("Sec-WebSocket-Key", testKey)
		}
		return &http.Request{Method: "GET", Header: hd, Proto: "HTTP/1.1", ProtoMajor: 1, ProtoMinor: 1}
	}
	for round := 0; round < 6; round++ {
		rt := &routeHandler{}
		rt.up = gws.NewUpgrader(rt, &gws.ServerOption{})
		appReader := bufio.NewReaderSize(nil, 4096)
		// A: rejected (no key), with the application's reader
		tapA := newMemConn()
		appReader.Reset(tapA)
		if conn, err := rt.up.UpgradeFromConn(tapA, appReader, mkReq(false)); err == nil || conn != nil {
			c.oracleFail("a request without Sec-WebSocket-Key was upgraded", "reader-scenario-setup", nil)
			return nil
		}
		// B: accepted, the application reuses its reader
		tapB, hB := newMemConn(), &recHandler{}
		appReader.Reset(tapB)
		connB, err := rt.up.UpgradeFromConn(tapB, appReader, mkReq(true))
		if err != nil {
			return err
		}
		rt.bind(connB, hB)
		// C: accepted through Upgrade, which takes its reader from the pool
		tapC, hC := newMemConn(), &recHandler{}
		connC, err := rt.up.Upgrade(&fakeHijacker{conn: tapC, hdr: http.Header{}}, mkReq(true))
		if err != nil {
			return err
		}
		rt.bind(connC, hC)
		tapB.feed(dataFrame(1, true, true, []byte("sent-on-B")))
		tapC.feed(dataFrame(1, true, true, []byte("sent-on-C")))
		tapB.feed(dataFrame(8, true, true, []byte{0x03, 0xe8}))
		tapC.feed(dataFrame(8, true, true, []byte{0x03, 0xe8}))
		tapB.setEOF()
		tapC.setEOF()
		doneB := make(chan struct{})
		doneC := make(chan struct{})
		go func() { defer close(doneB); connB.ReadLoop() }()
		go func() { defer close(doneC); connC.ReadLoop() }()
		for _, d := range []chan struct{}{doneB, doneC} {
			select {
			case <-d:
			case <-time.After(5 * time.Second):
			}
		}
		got := func(h *recHandler) []string {
			var out []string
			for _, e := range h.events() {
				if e.Kind == "msg" {
					out = append(out, string(e.Payload))
				}
			}
			return out
		}
		gb, gc := got(hB), got(hC)
		tag := fmt.Sprintf("application-owned reader round=%d", round)
		if len(gb) != 1 || gb[0] != "sent-on-B" || len(gc) != 1 || gc[0] != "sent-on-C" {
			c.oracleFail(fmt.Sprintf("connection B (the application's own bufio.Reader, reused after a rejected handshake) received %q and connection C (reader from the pool) received %q; each must receive exactly its own message [%s]", gb, gc, tag),
				"reader-shared", map[string]any{"tag": tag})
		}
		_ = tapB.Close()
		_ = tapC.Close()
		c.count(tag, true, "kind=app-owned-reader")
	}
	return nil
}
