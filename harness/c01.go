package main

import (
	"bytes"
	"fmt"
	"net/http"
	"sort"
	"time"

	"github.com/lxzan/gws"
)

func init() {
	runners["C01"] = runC01
	runners["C02"] = runC02
}

type pairCfg struct {
	sPMD, cPMD     gws.PermessageDeflate
	utf8           bool
	parallel       bool
	rlimit, wlimit int
}

type e2ePair struct {
	srv, cli   *gws.Conn
	stap, ctap *memConn
	sh, ch     *recHandler
}

func openPair(c *Ctx, pc pairCfg, rechunk bool) (*e2ePair, error) {
	sh, ch := &recHandler{}, &recHandler{}
	if pc.parallel {
		// a handler goroutine owns its message until it closes it: it may look at it late, while later messages arrive
		sh.lateRead, ch.lateRead = 300*time.Microsecond, 300*time.Microsecond
	}
	sopt := &gws.ServerOption{PermessageDeflate: pc.sPMD, CheckUtf8Enabled: pc.utf8, ParallelEnabled: pc.parallel, ParallelGolimit: 4, ReadMaxPayloadSize: pc.rlimit, WriteMaxPayloadSize: pc.wlimit}
	copt := &gws.ClientOption{PermessageDeflate: pc.cPMD, CheckUtf8Enabled: pc.utf8, ParallelEnabled: pc.parallel, ParallelGolimit: 4, ReadMaxPayloadSize: pc.rlimit, WriteMaxPayloadSize: pc.wlimit}
	srv, cli, stap, ctap, err := gwsPair(sopt, copt, sh, ch)
	if err != nil {
		return nil, err
	}
	if rechunk {
		f := func(b []byte) [][]byte { return cutChunks(c, b, 2) }
		stap.mu.Lock()
		stap.rechunk = f
		stap.mu.Unlock()
		ctap.mu.Lock()
		ctap.rechunk = f
		ctap.mu.Unlock()
	}
	go srv.ReadLoop()
	go cli.ReadLoop()
	return &e2ePair{srv, cli, stap, ctap, sh, ch}, nil
}

func (p *e2ePair) close() {
	_ = p.srv.WriteClose(1000, nil)
	_ = p.cli.WriteClose(1000, nil)
}

func msgEvents(h *recHandler) []evRec {
	var out []evRec
	for _, e := range h.events() {
		if e.Kind == "msg" {
			out = append(out, e)
		}
	}
	return out
}

func waitMsgs(h *recHandler, n int) []evRec {
	for i := 0; i < 5000; i++ {
		if ev := msgEvents(h); len(ev) >= n {
			return ev
		}
		time.Sleep(time.Millisecond)
	}
	return msgEvents(h)
}

func pmdConfigs() []pairCfg {
	var out []pairCfg
	out = append(out, pairCfg{utf8: true})
	for _, sto := range []bool{true, false} {
		for _, cto := range []bool{true, false} {
			for _, bits := range []int{8, 11, 15} {
				for _, th := range []int{0, 100} {
					pd := gws.PermessageDeflate{Enabled: true, ServerContextTakeover: sto, ClientContextTakeover: cto, ServerMaxWindowBits: bits, ClientMaxWindowBits: 23 - bits, Threshold: th, Level: 1 + bits%9}
					out = append(out, pairCfg{sPMD: pd, cPMD: pd, utf8: bits%2 == 0})
				}
			}
		}
	}
	return out
}

// one direction of a session: sends ops from `from` to `to`, checks delivery, records the model case
func e2eDirection(c *Ctx, p *e2ePair, fromServer bool, ops []sendOp, parallel bool, tag string, withCase bool, rlimit int, utf8 bool) (healthy bool) {
	from, ftap, toH, to := p.cli, p.ctap, p.sh, p.srv
	if fromServer {
		from, ftap, toH, to = p.srv, p.stap, p.ch, p.cli
	}
	already := len(msgEvents(toH))
	cpsBefore, cpsCap := cpsState(from)
	before := ftap.numWrites()
	var sentP [][]byte
	var sentOp []int
	for _, op := range ops {
		res := rawSend(from, op)
		pl := joinSlices(op.Slices)
		if op.Reader != nil {
			pl = joinSlices(op.Reader.chunks0())
		}
		if res != 0 && res != 100 {
			c.oracleFail(fmt.Sprintf("a valid send through %s failed with %d [%s]", op.API, res, tag), "valid-call-failed", map[string]any{"tag": tag, "api": op.API, "len": len(pl)})
			return false
		}
		sentP = append(sentP, pl)
		sentOp = append(sentOp, op.Opcode)
	}
	got := waitMsgs(toH, already+len(ops))[already:]
	replay := map[string]any{"tag": tag, "sent": len(ops), "delivered": len(got)}
	if len(got) != len(ops) {
		c.oracleFail(fmt.Sprintf("%d messages sent, %d delivered [%s]", len(ops), len(got), tag), "message-lost-or-duplicated", replay)
		return false
	}
	if parallel && from.VerifPD().Level >= 7 && cpsCap > 0 {
		// D17 can also strike with parallel handling: a delivered payload that is dictionary bytes ++ a sent payload
		sentSet := map[string]bool{}
		for _, sp := range sentP {
			sentSet[string(sp)] = true
		}
		for _, g := range got {
			if sentSet[string(g.Payload)] {
				continue
			}
			for _, sp := range sentP {
				if len(g.Payload) > len(sp) && bytes.HasSuffix(g.Payload, sp) {
					c.oracleFail(fmt.Sprintf("compression level %d with context takeover: a %d-byte message was delivered with %d dictionary bytes prepended [%s]", from.VerifPD().Level, len(sp), len(g.Payload)-len(sp), tag),
						"flate-level7plus-dict-leak", map[string]any{"tag": tag, "level": from.VerifPD().Level})
					return false
				}
			}
		}
	}
	if !parallel {
		for i := range ops {
			if got[i].Opcode == sentOp[i] && !bytes.Equal(got[i].Payload, sentP[i]) && from.VerifPD().Level >= 7 && cpsCap > 0 &&
				len(got[i].Payload) > len(sentP[i]) && bytes.HasSuffix(got[i].Payload, sentP[i]) {
				// D17: klauspost/compress v1.17.5, levels 7-9: after ResetDict an incompressible payload is emitted as a stored
				// block that also contains the dictionary bytes
				c.oracleFail(fmt.Sprintf("compression level %d with context takeover: a %d-byte incompressible message was delivered with %d dictionary bytes prepended [%s]", from.VerifPD().Level, len(sentP[i]), len(got[i].Payload)-len(sentP[i]), tag),
					"flate-level7plus-dict-leak", map[string]any{"tag": tag, "level": from.VerifPD().Level, "sent_len": len(sentP[i]), "got_len": len(got[i].Payload)})
				return false
			}
			if got[i].Opcode != sentOp[i] || !bytes.Equal(got[i].Payload, sentP[i]) {
				var sl, gl []string
				for j := range ops {
					sl = append(sl, fmt.Sprintf("%s/%d/%d", ops[j].API, sentOp[j], len(sentP[j])))
					gl = append(gl, fmt.Sprintf("%d/%d", got[j].Opcode, len(got[j].Payload)))
				}
				replay["sent_list"], replay["got_list"] = sl, gl
				replay["wire_hex"] = fmt.Sprintf("%x", joinSlices(ftap.writeCalls()[before:]))
				replay["sent_hex"] = fmt.Sprintf("%x", sentP[i])
				replay["got_hex"] = fmt.Sprintf("%x", got[i].Payload)
				replay["cps_before_hex"] = fmt.Sprintf("%x", cpsBefore)
				c.oracleFail(fmt.Sprintf("message %d (api %s, %d bytes) was delivered with opcode %d and %d bytes, or out of order; sent %v got %v [%s]", i, ops[i].API, len(sentP[i]), got[i].Opcode, len(got[i].Payload), sl, gl, tag), "message-differs", replay)
				return false
			}
		}
	} else {
		a := make([]string, 0, len(ops))
		b := make([]string, 0, len(ops))
		for i := range ops {
			a = append(a, fmt.Sprintf("%d|%s", sentOp[i], sentP[i]))
			b = append(b, fmt.Sprintf("%d|%s", got[i].Opcode, got[i].Payload))
		}
		sort.Strings(a)
		sort.Strings(b)
		for i := range a {
			if a[i] != b[i] {
				c.oracleFail("parallel handling: the set of delivered messages differs from the set sent ["+tag+"]", "message-differs", replay)
				return false
			}
		}
	}
	// queueing order on the wire (async API) and the model case
	wire := joinSlices(ftap.writeCalls()[before:])
	fs, rest, perr := parseFrames(wire)
	if perr != nil || len(rest) != 0 {
		c.oracleFail("sender's wire is not whole frames ["+tag+"]", "outbound-malformed", replay)
		return false
	}
	if withCase && len(fs) == len(ops) {
		pd := from.VerifPD()
		wl := 16777216
		sv := VL{vbool(fromServer), vbool(pd.Enabled), VZ(pd.Threshold), VZ(wl), vbool(utf8)}
		opl := VL{}
		for i, op := range ops {
			dout := []byte{}
			if fs[i].Rsv1 {
				dout = fs[i].Payload
			}
			kind := 0
			if op.API == "broadcast" {
				kind = 1
			}
			opl = append(opl, VL{VN(op.Opcode), slicesVal(op.Slices), VB(fs[i].Key), VB(dout), VN(kind)})
		}
		cpsAfter, _ := cpsState(from)
		_, _, dpsAfter, _ := to.VerifWindows()
		if cpsCap == 0 {
			dpsAfter = nil
		}
		rl := rlimit
		if rl <= 0 {
			rl = 16777216
		}
		c.addCase("C01", VL{sv, VL{VZ(rl), vbool(utf8)}, VN(cpsCap), VB(cpsBefore), opl, VB(wire), eventsVal(got), VB(cpsAfter), VB(dpsAfter)}, tag)
	}
	return true
}

func randomOps(c *Ctx, n int, apis []string, pool *[]byte, maxLen int) []sendOp {
	lens := []int{0, 1, 2, 125, 126, 127, 300, 1000, 4096, 65535, 65536, 70000, 131072, 140000}
	var ops []sendOp
	for i := 0; i < n; i++ {
		api := apis[c.Rng.Intn(len(apis))]
		ln := lens[c.Rng.Intn(len(lens))]
		if ln > maxLen {
			ln = c.Rng.Intn(maxLen + 1)
		}
		opc := 1 + c.Rng.Intn(2)
		if api == "string" {
			opc = 1
		}
		var p []byte
		if opc == 1 {
			p = textPayload(c, ln, *pool)
		} else {
			p = randBytes(c.Rng, ln)
			if len(*pool) > 300 && ln > 300 {
				copy(p[ln/3:], (*pool)[:200])
			}
		}
		if len(*pool) < 1<<16 {
			*pool = append(*pool, head(p, 2048)...)
		}
		op := sendOp{API: api, Opcode: opc, Slices: [][]byte{p}}
		if api == "writev" || api == "writevasync" {
			op.Slices = splitSlices(c, p, 1+c.Rng.Intn(4))
		}
		if api == "file" {
			op.Reader = newChunkReader(splitSlices(c, p, 1+c.Rng.Intn(3)), []string{"sep", "with"}[c.Rng.Intn(2)])
			op.Slices = nil
		}
		ops = append(ops, op)
	}
	return ops
}

func runC01(c *Ctx) error {
	c.Sum.Rule = "real gws-to-gws sessions over the in-memory transport (a real handshake each): every negotiated configuration {no compression; compression x 4 takeover combinations x window bits 8/11/15 per side x threshold 0/100 x levels} x both directions x sequential/parallel handling x random re-chunking of the byte stream x random message sequences (opcode, lengths at every encoding/segment boundary, contents repeating earlier traffic) through every write API and their mixes; oracle: delivered (opcode, payload) sequence = sent sequence (multiset when parallel), each exactly once; model: the same history through Model/EndToEnd.v (sender + receiver models) must reproduce the wire bytes, the delivered events and both windows; non-trivial = all; distinct by (config, direction, history)"
	cfgs := pmdConfigs()
	allAPIs := []string{"message", "writev", "async", "writevasync", "string", "file", "broadcast"}
	bufAPIs := []string{"message", "writev", "async", "string", "writevasync", "broadcast"}
	rounds := 1
	if !c.quick() {
		rounds = 24
	}
	for r := 0; r < rounds; r++ {
		for ci, pc := range cfgs {
			if c.quick() && ci%2 == 1 && ci > 2 {
				continue
			}
			for _, parallel := range []bool{false, true} {
				if parallel && (ci+r)%3 != 0 {
					continue
				}
				pc.parallel = parallel
				p, err := openPair(c, pc, (ci+r)%2 == 0)
				if err != nil {
					return fmt.Errorf("pair %d: %v", ci, err)
				}
				var pool []byte
				for _, fromServer := range []bool{true, false} {
					// (1) buffered APIs: also replayed on the Coq model
					tag := fmt.Sprintf("cfg=%d r=%d fromServer=%v parallel=%v pmd=%v sto=%v cto=%v sbits=%d th=%d", ci, r, fromServer, parallel, pc.sPMD.Enabled, pc.sPMD.ServerContextTakeover, pc.sPMD.ClientContextTakeover, pc.sPMD.ServerMaxWindowBits, pc.sPMD.Threshold)
					ops := randomOps(c, 3+c.Rng.Intn(5), bufAPIs, &pool, 5000)
					if !e2eDirection(c, p, fromServer, ops, parallel, tag+" buffered", !parallel, 0, pc.utf8) {
						break // the connection pair is no longer in a defined state (a violation or a known finding was reported)
					}
					c.count(tag+" buffered", true, fmt.Sprintf("pmd=%v", pc.sPMD.Enabled), fmt.Sprintf("parallel=%v", parallel), "apis=buffered")
					// (2) every API, large payloads: oracle only
					ops = randomOps(c, 3+c.Rng.Intn(4), allAPIs, &pool, 200000)
					if !e2eDirection(c, p, fromServer, ops, parallel, tag+" all-apis", false, 0, pc.utf8) {
						break
					}
					c.count(tag+" all", true, "apis=all")
					// (4) parallel handling: several fragmented messages in a row while the handlers of the earlier ones still run
					if parallel {
						var fops []sendOp
						for k := 0; k < 4; k++ {
							pl := bytes.Repeat([]byte{byte('A' + k)}, 300+50*k)
							fops = append(fops, sendOp{API: "file", Opcode: 2, Reader: newChunkReader(splitEven(pl, 3), "sep")})
						}
						if !e2eDirection(c, p, fromServer, fops, parallel, tag+" streamed-in-a-row", false, 0, pc.utf8) {
							break
						}
						c.count(tag+" streamed-in-a-row", true, "apis=streamed-in-a-row")
					}
					// (3) every length-encoding / segment boundary once per pair and direction, through rotating APIs
					if r == 0 && !parallel {
						var bops []sendOp
						for bi, ln := range []int{0, 125, 126, 127, 65535, 65536, 65537, 131071, 131072, 131073} {
							api := allAPIs[(bi+ci)%len(allAPIs)]
							opc := 2
							if api == "string" {
								opc = 1
							}
							pl := textPayload(c, ln, pool)
							op := sendOp{API: api, Opcode: opc, Slices: [][]byte{pl}}
							if api == "file" {
								op.Reader, op.Slices = newChunkReader(splitSlices(c, pl, 1+bi%3), "sep"), nil
							}
							bops = append(bops, op)
						}
						// a streamed send whose reader starts with an empty read (the first frame on the wire is an empty non-final one)
						bops = append(bops, sendOp{API: "file", Opcode: 2, Reader: newChunkReader([][]byte{{}, []byte("after an empty first read")}, "sep")})
						// content that compresses extremely well (ratios far above 100:1) is content like any other
						zeros := make([]byte, 262144)
						line := bytes.Repeat([]byte("2026-10-02T00:00:00Z INFO request served in 1ms\n"), 4000)
						bops = append(bops, sendOp{API: "message", Opcode: 2, Slices: [][]byte{zeros}}, sendOp{API: "writev", Opcode: 1, Slices: [][]byte{line[:1000], line[1000:]}},
							sendOp{API: "file", Opcode: 2, Reader: newChunkReader([][]byte{zeros[:100000], zeros[100000:]}, "sep")}, sendOp{API: "broadcast", Opcode: 1, Slices: [][]byte{line}})
						if !e2eDirection(c, p, fromServer, bops, parallel, tag+" boundaries", false, 0, pc.utf8) {
							break
						}
						c.count(tag+" boundaries", true, "apis=boundaries")
					}
				}
				p.close()
			}
		}
	}
	c01ForeignSender(c)
	c01AsyncBacklog(c)
	return nil
}

// c01ForeignSender: the receiving half against a conforming peer that is not gws - it fragments messages as it likes
// (empty fragments included), puts pings and pongs between the fragments and between the messages, sends its first
// frames in the same network write as the handshake answer (a greeting), and, when compression was negotiated without
// context takeover, compresses every message on its own.  Every message is delivered once, intact, in order.
func c01ForeignSender(c *Ctx) {
	rounds := 6
	if !c.quick() {
		rounds = 200
	}
	for r := 0; r < rounds; r++ {
		for _, gwsIsClient := range []bool{true, false} {
			for _, pmd := range []bool{false, true} {
				ext := ""
				pd := gws.PermessageDeflate{}
				if pmd {
					ext = "permessage-deflate; server_no_context_takeover; client_no_context_takeover"
					pd = gws.PermessageDeflate{Enabled: true}
				}
				masked := !gwsIsClient // the foreign peer is a client when gws is the server
				var msgs [][]byte
				var ops []int
				var stream [][]byte // frames in order
				nping := 0
				for i, ln := range []int{0, 5, 126, 300 + c.Rng.Intn(3000), 70000, 1 + c.Rng.Intn(200), 0, 2000} {
					opc := 1 + (i+r)%2
					var p []byte
					if opc == 1 {
						p = textPayload(c, ln, nil)
					} else {
						p = randBytes(c.Rng, ln)
					}
					msgs, ops = append(msgs, p), append(ops, opc)
					wire, rsv1 := p, false
					if pmd && (i+r)%3 != 0 {
						wire, rsv1 = rfc7692Deflate(p, nil, 6), true
					}
					parts := [][]byte{wire}
					if k := (i + r) % 4; k > 0 {
						parts = splitSlices(c, wire, k+1)
						if k == 3 {
							parts = append([][]byte{{}}, parts...) // an empty first fragment
						}
					}
					for j, part := range parts {
						fop := opc
						if j > 0 {
							fop = 0
						}
						stream = append(stream, encodeFrame(frameSpec{Fin: j == len(parts)-1, Rsv1: rsv1 && j == 0, Opcode: fop, Masked: masked, Key: [4]byte{byte(i), byte(j), 7, 9}, Payload: part, DeclLen: -1}))
						if j < len(parts)-1 && (i+j+r)%2 == 0 {
							stream = append(stream, encodeFrame(frameSpec{Fin: true, Opcode: 9 + (i+j)%2, Masked: masked, Key: [4]byte{5, 5, byte(i), byte(j)}, Payload: head(p, 20+j), DeclLen: -1}))
							nping++
						}
					}
					if i%3 == 1 {
						stream = append(stream, encodeFrame(frameSpec{Fin: true, Opcode: 9, Masked: masked, Key: [4]byte{6, 6, 6, byte(i)}, Payload: []byte("between messages"), DeclLen: -1}))
						nping++
					}
				}
				h := &recHandler{}
				tap := newMemConn()
				tag := fmt.Sprintf("foreign sender r=%d gws-is-client=%v pmd=%v", r, gwsIsClient, pmd)
				glued := r % 4 // this many frames travel in the same chunk as the handshake answer
				var conn *gws.Conn
				var err error
				if gwsIsClient {
					conn, _, err = clientConn(&gws.ClientOption{PermessageDeflate: pd, CheckUtf8Enabled: true, ReadMaxPayloadSize: 1 << 20}, h, tap, ext, func(req *http.Request) []byte {
						return append(defaultResponse(req, ext, ""), joinSlices(stream[:glued])...)
					})
				} else {
					glued = 0
					var hd map[string][]string
					if pmd {
						hd = map[string][]string{"Sec-WebSocket-Extensions": {ext}}
					}
					conn, err = serverConnWith(gws.NewUpgrader(h, &gws.ServerOption{PermessageDeflate: pd, CheckUtf8Enabled: true, ReadMaxPayloadSize: 1 << 20}), tap, hd)
				}
				if err != nil {
					c.oracleFail("handshake failed: "+err.Error()+" ["+tag+"]", "valid-call-failed", map[string]any{"tag": tag})
					continue
				}
				tap.feed(cutChunks(c, joinSlices(stream[glued:]), r%3)...)
				tap.setEOF()
				if !runWithTimeout(20*time.Second, conn.ReadLoop) {
					c.oracleFail("read loop did not return ["+tag+"]", "read-hang", map[string]any{"tag": tag})
					continue
				}
				got := msgEvents(h)
				bad := ""
				if len(got) != len(msgs) {
					bad = fmt.Sprintf("%d messages sent, %d delivered", len(msgs), len(got))
				} else {
					for i := range msgs {
						if got[i].Opcode != ops[i] || !bytes.Equal(got[i].Payload, msgs[i]) {
							bad = fmt.Sprintf("message %d (opcode %d, %d bytes) was delivered with opcode %d and %d bytes", i, ops[i], len(msgs[i]), got[i].Opcode, len(got[i].Payload))
							break
						}
					}
				}
				if bad != "" {
					c.oracleFail(fmt.Sprintf("a conforming peer's messages (fragmented at will, pings in between, %d frame(s) in the same write as the handshake answer) were not delivered once, intact and in order: %s [%s]", glued, bad, tag),
						"message-differs", map[string]any{"tag": tag, "glued_frames": glued})
				}
				_ = tap.Close()
				c.count(tag, true, "apis=foreign-sender", fmt.Sprintf("pmd=%v", pmd))
			}
		}
	}
}

// c01AsyncBacklog: one goroutine queues a mix of asynchronous sends while the queue's worker is busy with a plain task
// (the write lock is free all the time): they reach the peer in queueing order.
func c01AsyncBacklog(c *Ctx) {
	rounds := 4
	if !c.quick() {
		rounds = 100
	}
	for r := 0; r < rounds; r++ {
		for _, fromServer := range []bool{true, false} {
			p, err := openPair(c, pairCfg{utf8: true}, r%2 == 0)
			if err != nil {
				c.oracleFail("pair: "+err.Error(), "valid-call-failed", nil)
				return
			}
			from, toH := p.cli, p.sh
			if fromServer {
				from, toH = p.srv, p.ch
			}
			tag := fmt.Sprintf("async backlog r=%d fromServer=%v", r, fromServer)
			gate := make(chan struct{})
			started := make(chan struct{})
			from.Async(func() { close(started); <-gate })
			<-started
			kinds := []string{"writevasync", "writeasync", "broadcast", "writeasync", "async-func", "writeasync", "writevasync", "writeasync"}
			var want [][]byte
			cbs := make(chan int, len(kinds))
			var bcs []*gws.Broadcaster
			for i, k := range kinds {
				i := i
				pl := []byte(fmt.Sprintf("queued #%d via %s (round %d)", i, k, r))
				switch k {
				case "writevasync":
					from.WritevAsync(gws.OpcodeText, [][]byte{pl[:3], pl[3:]}, func(error) { cbs <- i })
					want = append(want, pl)
				case "writeasync":
					from.WriteAsync(gws.OpcodeText, pl, func(error) { cbs <- i })
					want = append(want, pl)
				case "broadcast":
					b := gws.NewBroadcaster(gws.OpcodeText, pl)
					_ = b.Broadcast(from)
					bcs = append(bcs, b)
					want = append(want, pl)
					cbs <- i
				default:
					from.Async(func() { cbs <- i })
				}
			}
			close(gate)
			for range kinds {
				select {
				case <-cbs:
				case <-time.After(10 * time.Second):
					c.oracleFail("a queued asynchronous send never completed ["+tag+"]", "message-lost-or-duplicated", map[string]any{"tag": tag})
				}
			}
			got := waitMsgs(toH, len(want))
			bad := ""
			if len(got) != len(want) {
				bad = fmt.Sprintf("%d queued, %d delivered", len(want), len(got))
			} else {
				for i := range want {
					if !bytes.Equal(got[i].Payload, want[i]) {
						bad = fmt.Sprintf("position %d holds %q, queued there: %q", i, head(got[i].Payload, 60), head(want[i], 60))
						break
					}
				}
			}
			if bad != "" {
				c.oracleFail(fmt.Sprintf("messages queued by one goroutine through the asynchronous entry points did not reach the peer in queueing order: %s [%s]", bad, tag), "message-differs", map[string]any{"tag": tag})
			}
			for _, b := range bcs {
				_ = b.Close()
			}
			p.close()
			c.count(tag, true, "apis=async-backlog")
		}
	}
}
