module verif/harness

go 1.23

require github.com/lxzan/gws v0.0.0

require (
	github.com/anishathalye/porcupine v1.3.0
	github.com/klauspost/compress v1.17.5
)

require github.com/dolthub/maphash v0.1.0 // indirect

replace github.com/lxzan/gws => /repo
