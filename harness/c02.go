package main

import (
	"bufio"
	"bytes"
	"fmt"
	"net/http"
	"strconv"
	"strings"
	"time"

	"github.com/lxzan/gws"
)

// C02: histories of interleaved traffic on connections with context takeover; after every operation the wire bytes are
// inflated by the harness's own RFC 1951 inflater carrying the RFC 7692 history (and measuring back-reference
// distances), and the two endpoints' windows are compared.
func runC02(c *Ctx) error {
	c.Sum.Rule = "histories of 8-40 interleaved operations {data message above/below threshold, ping/pong carrying a payload, broadcast (also from a broadcaster first used on a connection with another threshold), streamed file, traffic in the opposite direction, a second connection on the same server} with payloads built from a small pool of >=128-byte blocks (so later messages back-reference earlier payloads, including control-frame payloads) x 4 takeover combinations x window bits 8..15 x thresholds; after EVERY operation: (a) the wire bytes inflate to the payload under the harness's own RFC 1951 inflater with history = earlier compressed payloads of that direction (empty without takeover), (b) no back-reference distance exceeds 2^bits, (c) sender cps window = receiver dps window = model; inbound: streams from a conforming sender (compress/flate with preset dictionary) with references at the maximum distance and across message boundaries; non-trivial = operations that produced a compressed frame"
	blocks := make([][]byte, 12)
	for i := range blocks {
		blocks[i] = textPayload(c, 128+c.Rng.Intn(300), nil)
		copy(blocks[i], fmt.Sprintf("BLOCK%02d-", i))
	}
	mk := func(nblocks int) []byte {
		var p []byte
		for i := 0; i < nblocks; i++ {
			p = append(p, blocks[c.Rng.Intn(len(blocks))]...)
		}
		return p
	}
	iters := 40
	if !c.quick() {
		iters = 1800
	}
	for it := 0; it < iters; it++ {
		bits := 8 + it%8
		sto, cto := it%2 == 0, (it/2)%2 == 0
		pd := gws.PermessageDeflate{Enabled: true, ServerContextTakeover: sto, ClientContextTakeover: cto, ServerMaxWindowBits: bits, ClientMaxWindowBits: 8 + (it/3)%8, Threshold: []int{0, 200, 512}[it%3], Level: 1 + it%9}
		pc := pairCfg{sPMD: pd, cPMD: pd}
		if it%4 == 3 {
			// the client asks for smaller windows than the server is configured with (RFC 7692 7.1.2): whatever the server
			// answers is what its compressor must respect
			pc.cPMD.ServerMaxWindowBits = maxInt(8, bits-3)
			pc.cPMD.ClientMaxWindowBits = maxInt(8, pd.ClientMaxWindowBits-2)
		}
		p, err := openPair(c, pc, it%2 == 1)
		if err != nil {
			return err
		}
		// a second connection on the same kind of server, used to share broadcasters
		p2, err := openPair(c, pairCfg{sPMD: gws.PermessageDeflate{Enabled: true, ServerContextTakeover: !sto, ClientContextTakeover: cto, ServerMaxWindowBits: bits, ClientMaxWindowBits: 15, Threshold: 512}, cPMD: pd}, false)
		if err != nil {
			return err
		}
		type dir struct {
			from, to   *gws.Conn
			tap        *memConn
			toH        *recHandler
			server     bool
			history    []byte
			takeover   bool
			bits       int
			wireOffset int
			delivered  int
		}
		npd := p.srv.VerifPD()
		dirs := []*dir{
			{from: p.srv, to: p.cli, tap: p.stap, toH: p.ch, server: true, takeover: npd.ServerContextTakeover, bits: npd.ServerMaxWindowBits},
			{from: p.cli, to: p.srv, tap: p.ctap, toH: p.sh, server: false, takeover: npd.ClientContextTakeover, bits: npd.ClientMaxWindowBits},
		}
		for _, d := range dirs {
			d.wireOffset = len(afterHTTP(d.tap.written()))
			if !d.server {
				d.wireOffset = len(d.tap.written()) // client tap: request bytes are all handshake
			} else {
				d.wireOffset = len(d.tap.written())
			}
		}
		nops := 8 + c.Rng.Intn(30)
		for k := 0; k < nops; k++ {
			d := dirs[c.Rng.Intn(2)]
			kind := []string{"data", "data", "small", "ping", "pong", "broadcast", "broadcast2", "file", "writev"}[c.Rng.Intn(9)]
			var payload []byte
			var res int
			expectMsg := true
			opc := 1
			switch kind {
			case "data":
				payload = mk(1 + c.Rng.Intn(6))
				res = rawSend(d.from, sendOp{API: "message", Opcode: 1, Slices: [][]byte{payload}})
			case "writev":
				payload = mk(2 + c.Rng.Intn(3))
				res = rawSend(d.from, sendOp{API: "writev", Opcode: 1, Slices: splitSlices(c, payload, 3)})
			case "small":
				payload = head(blocks[c.Rng.Intn(len(blocks))], 20+c.Rng.Intn(100))
				res = rawSend(d.from, sendOp{API: "message", Opcode: 1, Slices: [][]byte{payload}})
			case "ping", "pong":
				payload = head(blocks[c.Rng.Intn(len(blocks))], 125)
				opc = 9
				if kind == "pong" {
					opc = 10
				}
				res = rawSend(d.from, sendOp{API: kind, Opcode: opc, Slices: [][]byte{payload}})
				expectMsg = false
			case "broadcast":
				payload = mk(1 + c.Rng.Intn(3))
				res = rawSend(d.from, sendOp{API: "broadcast", Opcode: 1, Slices: [][]byte{payload}})
			case "broadcast2":
				// one broadcaster, first used on the other server connection (different threshold / takeover), then here
				payload = head(mk(2), 264)
				b := gws.NewBroadcaster(gws.OpcodeText, payload)
				if d.server {
					_ = b.Broadcast(p2.srv)
					_ = b.Broadcast(p.srv)
					for _, cn := range []*gws.Conn{p2.srv, p.srv} {
						done := make(chan struct{})
						cn.Async(func() { close(done) })
						<-done
					}
				} else {
					_ = b.Broadcast(p.cli)
					done := make(chan struct{})
					p.cli.Async(func() { close(done) })
					<-done
				}
				_ = b.Close()
			case "file":
				payload = mk(3 + c.Rng.Intn(4))
				res = rawSend(d.from, sendOp{API: "file", Opcode: 1, Reader: newChunkReader(splitSlices(c, payload, 2), "sep")})
			}
			tag := fmt.Sprintf("it=%d op=%d kind=%s fromServer=%v takeover=%v bits=%d threshold=%d len=%d", it, k, kind, d.server, d.takeover, d.bits, npd.Threshold, len(payload))
			replay := map[string]any{"tag": tag, "payload_prefix": string(head(payload, 40))}
			if res != 0 && res != 100 {
				c.oracleFail(fmt.Sprintf("send failed with %d [%s]", res, tag), "valid-call-failed", replay)
				break
			}
			// the wire of this operation, decoded by the independent receiver
			all := d.tap.written()
			wire := all[d.wireOffset:]
			d.wireOffset = len(all)
			fs, rest, perr := parseFrames(wire)
			if perr != nil || len(rest) != 0 {
				c.oracleFail("wire is not whole frames ["+tag+"]", "outbound-malformed", replay)
				break
			}
			msgs, problem := groupMessages(fs)
			if problem != "" || len(msgs) != 1 {
				c.oracleFail(fmt.Sprintf("operation did not produce exactly one message on the wire (%d, %s) [%s]", len(msgs), problem, tag), "outbound-malformed", replay)
				break
			}
			m := msgs[0]
			got := m.Payload
			compressed := m.Opcode < 8 && m.Compressed
			if compressed {
				var dict []byte
				if d.takeover {
					dict = lastN(d.history, 1<<uint(d.bits))
				}
				src := append(append([]byte(nil), m.Payload...), 0x00, 0x00, 0xff, 0xff, 0x01, 0x00, 0x00, 0xff, 0xff)
				out, maxDist, ierr := inflateMaxDist(src, dict, 1<<24)
				if ierr != nil {
					c.oracleFail("RFC 7692 receiver (history = earlier compressed payloads) cannot inflate the message: "+ierr.Error()+" ["+tag+"]", "context-desync", replay)
					break
				}
				if maxDist > 1<<uint(d.bits) {
					c.oracleFail(fmt.Sprintf("back-reference distance %d exceeds the negotiated window 2^%d [%s]", maxDist, d.bits, tag), "distance-beyond-window", replay)
				}
				got = out
				if d.takeover {
					d.history = append(d.history, out...)
				}
			}
			if !bytes.Equal(got, payload) {
				c.oracleFail("the message on the wire does not inflate to the payload that was sent ["+tag+"]", "payload-differs", replay)
				break
			}
			// delivery at the gws peer and window agreement
			if expectMsg {
				d.delivered++
				ev := waitMsgs(d.toH, d.delivered)
				if len(ev) < d.delivered || !bytes.Equal(ev[d.delivered-1].Payload, payload) {
					c.oracleFail("the gws peer did not deliver the message intact ["+tag+"]", "peer-delivery", replay)
					break
				}
			} else {
				time.Sleep(200 * time.Microsecond)
			}
			cps, _ := cpsState(d.from)
			_, _, dps, dpsEn := d.to.VerifWindows()
			if d.takeover {
				want := lastN(d.history, 1<<uint(d.bits))
				if !bytes.Equal(cps, want) {
					c.oracleFail(fmt.Sprintf("sender window (%d bytes) is not the suffix of the compressed history (%d bytes) [%s]", len(cps), len(want), tag), "window-not-history", replay)
					break
				}
				if expectMsg && dpsEn && !bytes.Equal(dps, want) {
					c.oracleFail("receiver window differs from the sender's ["+tag+"]", "windows-disagree", replay)
					break
				}
			} else if len(cps) != 0 {
				c.oracleFail("window not empty without context takeover ["+tag+"]", "window-not-history", replay)
			}
			c.count(tag, compressed, "kind="+kind, fmt.Sprintf("takeover=%v", d.takeover), fmt.Sprintf("compressed=%v", compressed))
		}
		p.close()
		p2.close()
	}
	// D17 (known finding): level >= 7 with context takeover, a tiny history and an incompressible message
	for _, level := range []int{7, 9} {
		pd := gws.PermessageDeflate{Enabled: true, ServerContextTakeover: true, ClientContextTakeover: true, ServerMaxWindowBits: 15, ClientMaxWindowBits: 15, Level: level}
		p, err := openPair(c, pairCfg{sPMD: pd, cPMD: pd}, false)
		if err != nil {
			return err
		}
		seqs := [][]byte{{0x47}, {0x67}, randBytes(c.Rng, 127)}
		for i, m := range seqs {
			_ = p.cli.WriteMessage(gws.OpcodeBinary, m)
			ev := waitMsgs(p.sh, i+1)
			if len(ev) == i+1 && !bytes.Equal(ev[i].Payload, m) && bytes.HasSuffix(ev[i].Payload, m) {
				c.oracleFail(fmt.Sprintf("compression level %d with context takeover: history of 2 bytes, then a 127-byte incompressible message is emitted as a stored block that contains the dictionary (peer receives %d bytes)", level, len(ev[i].Payload)),
					"flate-level7plus-dict-leak", map[string]any{"level": level, "history": "47 67", "payload_len": 127})
			}
		}
		p.close()
		c.count(fmt.Sprintf("d17 level=%d", level), true, "kind=d17")
	}
	freshWindowScenario(c, 12)
	return runC02Inbound(c)
}

// inbound: a conforming sender (Go's compress/flate, persistent history) -> gws
func runC02Inbound(c *Ctx) error {
	iters := 24
	if !c.quick() {
		iters = 1500
	}
	for it := 0; it < iters; it++ {
		server := it%2 == 0
		bits := 8 + it%8
		spec := connSpec{Server: server, PMD: true, SrvTO: true, CliTO: true, SrvBits: bits, CliBits: bits, RLimit: 1 << 20}
		if it%3 == 0 {
			spec.RLimit = 100000 // below the size above which the pooled inflater drops its output buffer
			// an earlier connection of the same server whose one compressed message fails part-way through its inflation
			// (it inflates far beyond the read limit): the pooled inflater it used serves the connection below next
			pc, ptap, err := spec.open(&recHandler{})
			if err != nil {
				return err
			}
			ptap.feed(encodeFrame(frameSpec{Fin: true, Rsv1: true, Opcode: 2, Masked: server, Key: [4]byte{8, 8, 8, 8}, Payload: rfc7692Deflate(bytes.Repeat([]byte("a"), 3<<20), nil, 6), DeclLen: -1}))
			ptap.setEOF()
			runWithTimeout(10*time.Second, pc.ReadLoop)
		}
		h := &recHandler{}
		conn, tap, err := spec.open(h)
		if err != nil {
			return err
		}
		_, wbits := dpsParams(conn)
		win := 1 << uint(wbits)
		var history []byte
		var stream []byte
		var want [][]byte
		// first message: random bytes filling the window; later ones repeat its beginning (maximum distance) and cross boundaries
		first := randBytes(c.Rng, win)
		msgsP := [][]byte{first}
		for k := 0; k < 4; k++ {
			var p []byte
			switch k {
			case 0:
				p = append([]byte(nil), first[:min(64, len(first))]...) // reference at distance = window size
			case 1:
				p = append(append([]byte("x"), first[len(first)/2:]...), first[:10]...)
			case 2:
				p = bytes.Repeat(first[len(first)-7:], 30)
			default:
				p = randBytes(c.Rng, 1+c.Rng.Intn(300))
			}
			msgsP = append(msgsP, p)
		}
		for i, p := range msgsP {
			dict := lastN(history, win)
			z := rfc7692Deflate(p, dict, 9)
			history = append(history, p...)
			parts := splitEven(z, 1+i%3)
			for j, part := range parts {
				opc := 2
				if j > 0 {
					opc = 0
				}
				stream = append(stream, encodeFrame(frameSpec{Fin: j == len(parts)-1, Rsv1: j == 0, Opcode: opc, Masked: server, Key: [4]byte{1, byte(i), 3, 4}, Payload: part, DeclLen: -1})...)
			}
			// an uncompressed message and a ping in between must not disturb the context
			stream = append(stream, dataFrame(2, true, server, []byte("plain"))...)
			stream = append(stream, encodeFrame(frameSpec{Fin: true, Opcode: 9, Masked: server, Key: [4]byte{9, 9, 9, 9}, Payload: head(p, 50), DeclLen: -1})...)
			want = append(want, p, []byte("plain"))
		}
		tap.feed(cutChunks(c, stream, it%3)...)
		tap.setEOF()
		runWithTimeout(20*time.Second, conn.ReadLoop)
		got := msgEvents(h)
		tag := fmt.Sprintf("inbound it=%d server=%v bits=%d", it, server, wbits)
		ok := len(got) == len(want)
		firstBad := -1
		for i := 0; i < len(want) && i < len(got); i++ {
			if !bytes.Equal(got[i].Payload, want[i]) {
				ok = false
				if firstBad < 0 {
					firstBad = i
				}
			}
		}
		if !ok {
			detail := fmt.Sprintf("%d messages delivered, %d sent", len(got), len(want))
			if firstBad >= 0 {
				detail += fmt.Sprintf("; message %d arrived with %d bytes (sent %d) and different content", firstBad, len(got[firstBad].Payload), len(want[firstBad]))
			}
			c.oracleFail(fmt.Sprintf("gws did not inflate a conforming sender's stream correctly: %s [%s]", detail, tag), "inbound-inflate", map[string]any{"tag": tag})
		}
		c.count(tag, true, "kind=inbound")
	}
	// a peer that is NOT gws: it offers the extension in the forms RFC 7692 allows (without client_max_window_bits, with a
	// bare one, with a server_max_window_bits request), reads the server's ANSWER and compresses with the window the answer
	// allows it (2^N when the answer carries client_max_window_bits=N, 32 KiB otherwise, RFC 7692 7.1.2.2)
	for oi, offer := range []string{"permessage-deflate", "permessage-deflate; client_max_window_bits", "permessage-deflate; server_max_window_bits=9", "permessage-deflate; client_max_window_bits=11; server_max_window_bits=10",
		"permessage-deflate; server_no_context_takeover", "permessage-deflate; client_no_context_takeover; server_no_context_takeover; client_max_window_bits"} {
		for _, cbits := range []int{8, 10, 12, 15} {
			opt := &gws.ServerOption{ReadMaxPayloadSize: 1 << 20, PermessageDeflate: gws.PermessageDeflate{Enabled: true, ServerContextTakeover: true, ClientContextTakeover: true,
				ServerMaxWindowBits: 12, ClientMaxWindowBits: cbits}}
			h := &recHandler{}
			tap := newMemConn()
			conn, err := serverConnWith(gws.NewUpgrader(h, opt), tap, map[string][]string{"Sec-WebSocket-Extensions": {offer}})
			tag := fmt.Sprintf("inbound foreign peer offer=%q server ClientMaxWindowBits=%d", offer, cbits)
			if err != nil {
				c.oracleFail("handshake failed: "+err.Error()+" ["+tag+"]", "inbound-setup", map[string]any{"tag": tag})
				continue
			}
			resp, rerr := http.ReadResponse(bufio.NewReader(bytes.NewReader(tap.written())), nil)
			if rerr != nil {
				c.oracleFail("unparsable handshake answer ["+tag+"]", "inbound-setup", map[string]any{"tag": tag})
				continue
			}
			answer := resp.Header.Get("Sec-WebSocket-Extensions")
			if !strings.Contains(answer, "permessage-deflate") {
				c.count(tag, false, "kind=inbound-foreign-declined")
				continue
			}
			peerBits, peerTO := 15, true
			for _, part := range strings.Split(answer, ";") {
				kv := strings.SplitN(strings.TrimSpace(part), "=", 2)
				if kv[0] == "client_max_window_bits" && len(kv) == 2 {
					if n, e := strconv.Atoi(strings.Trim(kv[1], "\"")); e == nil && n >= 8 && n <= 15 {
						peerBits = n
					}
				}
				if kv[0] == "client_no_context_takeover" {
					peerTO = false
				}
			}
			// the other direction: what gws sends must be decodable by this peer, which keeps the history the ANSWER tells it to
			// keep (none after server_no_context_takeover, at most 2^server_max_window_bits bytes otherwise)
			{
				sTO, sBits := true, 15
				for _, part := range strings.Split(answer, ";") {
					kv := strings.SplitN(strings.TrimSpace(part), "=", 2)
					if kv[0] == "server_no_context_takeover" {
						sTO = false
					}
					if kv[0] == "server_max_window_bits" && len(kv) == 2 {
						if n, e := strconv.Atoi(strings.Trim(kv[1], "\"")); e == nil && n >= 8 && n <= 15 {
							sBits = n
						}
					}
				}
				rx := &rfcReceiver{server: true, takeover: sTO, bits: sBits}
				text := bytes.Repeat([]byte("the same text goes out twice, then a third time with a twist; "), 12)
				for k, pl := range [][]byte{text, text, append([]byte("twist: "), text...)} {
					nb := tap.numWrites()
					werr := conn.WriteMessage(gws.OpcodeText, pl)
					ms, problem := rx.receive(joinSlices(tap.writeCalls()[nb:]))
					if werr != nil || problem != "" || len(ms) != 1 || !bytes.Equal(ms[0].Payload, pl) {
						c.oracleFail(fmt.Sprintf("message %d sent by gws cannot be decoded by a peer that keeps the context the handshake answer %q describes (takeover=%v, 2^%d): %s (write result %v) [%s]", k, answer, sTO, sBits, problem, werr, tag),
							"context-desync", map[string]any{"tag": tag, "answer": answer, "message": k})
						break
					}
				}
			}
			win := 1 << uint(peerBits)
			first := randBytes(c.Rng, win)
			msgsP := [][]byte{first, append([]byte(nil), first[:64]...), append(append([]byte("x"), first[len(first)/2:]...), first[:10]...), append([]byte("marker "), first[win-179:]...)}
			var history, stream []byte
			for i, p := range msgsP {
				var dict []byte
				if peerTO {
					dict = lastN(history, win)
				}
				stream = append(stream, encodeFrame(frameSpec{Fin: true, Rsv1: true, Opcode: 2, Masked: true, Key: [4]byte{2, byte(i), 3, byte(oi)}, Payload: rfc7692Deflate(p, dict, 9), DeclLen: -1})...)
				history = append(history, p...)
			}
			tap.feed(cutChunks(c, stream, oi%3)...)
			tap.setEOF()
			runWithTimeout(20*time.Second, conn.ReadLoop)
			got := msgEvents(h)
			ok := len(got) == len(msgsP)
			for i := 0; i < len(msgsP) && i < len(got); i++ {
				ok = ok && bytes.Equal(got[i].Payload, msgsP[i])
			}
			if !ok {
				c.oracleFail(fmt.Sprintf("gws did not inflate the stream of a peer that compresses with the window the handshake answer %q allows (2^%d): %d of %d messages delivered intact-or-not [%s]", answer, peerBits, len(got), len(msgsP), tag),
					"inbound-inflate", map[string]any{"tag": tag, "answer": answer})
			}
			c.count(tag, true, "kind=inbound-foreign")
		}
	}
	return nil
}
