package main

// Session driver shared by the write-path properties (C01, C02, C05, C08): performs one send through a
// chosen API on a real connection and records everything observable about it.

import (
	"bytes"
	"errors"
	"fmt"
	"io"
	"net"
	"sync"
	"time"
	"unicode/utf8"

	"github.com/lxzan/gws"
)

type sendOp struct {
	API    string // message, string, writev, async, writevasync, file, broadcast, ping, pong
	Opcode int
	Slices [][]byte
	Reader *chunkReader // for file
	// for file, instead of Reader: a standard library reader (bytes.Reader, bytes.Buffer, strings.Reader: they have Len());
	// the payload is then given in Slices
	StdReader io.Reader
}

type sendObs struct {
	Res       int // 0 ok, 1 closed, 2 encoding, 3 too large, 7 reader error, 8 other error, 9 panic
	ErrText   string
	Wire      []byte
	Calls     [][]byte
	CpsBefore []byte
	CpsAfter  []byte
	CpsCap    int
}

func errCode(err error) (int, string) {
	switch {
	case err == nil:
		return 0, ""
	case errors.Is(err, net.ErrClosed):
		return 1, err.Error()
	case errors.Is(err, gws.ErrTextEncoding):
		return 2, err.Error()
	case errors.Is(err, gws.ErrMessageTooLarge):
		return 3, err.Error()
	case errors.Is(err, errReader):
		return 7, err.Error()
	}
	return 8, err.Error()
}

var errReader = errors.New("harness reader failure")

// chunkReader returns its chunks one per Read (cut to len(p)); mode: "sep" (0,EOF after the data),
// "with" (EOF together with the last data), "fail" (error instead of EOF).
type chunkReader struct {
	chunks [][]byte
	mode   string
	i      int
	log    []readRec
	orig   [][]byte
}

func (r *chunkReader) chunks0() [][]byte { return r.orig }

type readRec struct {
	Data []byte
	EOF  bool
}

func (r *chunkReader) Read(p []byte) (int, error) {
	for r.i < len(r.chunks) && len(r.chunks[r.i]) == 0 && !(r.mode == "with" && r.i == len(r.chunks)-1) {
		// an empty chunk in the middle is returned as (0, nil)
		r.i++
		r.log = append(r.log, readRec{nil, false})
		return 0, nil
	}
	if r.i >= len(r.chunks) {
		if r.mode == "fail" {
			return 0, errReader
		}
		r.log = append(r.log, readRec{nil, true})
		return 0, io.EOF
	}
	ch := r.chunks[r.i]
	n := copy(p, ch)
	if n < len(ch) {
		r.chunks[r.i] = ch[n:]
		r.log = append(r.log, readRec{append([]byte(nil), p[:n]...), false})
		return n, nil
	}
	r.i++
	if r.mode == "with" && r.i == len(r.chunks) {
		r.log = append(r.log, readRec{append([]byte(nil), p[:n]...), true})
		return n, io.EOF
	}
	r.log = append(r.log, readRec{append([]byte(nil), p[:n]...), false})
	return n, nil
}

func cpsState(conn *gws.Conn) (dict []byte, capacity int) {
	cps, enabled, _, _ := conn.VerifWindows()
	if !enabled {
		return nil, 0
	}
	pd := conn.VerifPD()
	bits := pd.ClientMaxWindowBits
	if conn.VerifIsServer() {
		bits = pd.ServerMaxWindowBits
	}
	return cps, 1 << uint(bits)
}

func joinSlices(s [][]byte) []byte {
	var out []byte
	for _, x := range s {
		out = append(out, x...)
	}
	return out
}

// doSend performs op on conn (whose transport is tap) and returns what was observed.
func doSend(conn *gws.Conn, tap *memConn, op sendOp) (obs sendObs) {
	obs.CpsBefore, obs.CpsCap = cpsState(conn)
	before := tap.numWrites()
	var err error
	func() {
		defer func() {
			if r := recover(); r != nil {
				obs.Res, obs.ErrText = 9, fmt.Sprint(r)
			}
		}()
		switch op.API {
		case "message":
			err = conn.WriteMessage(gws.Opcode(op.Opcode), joinSlices(op.Slices))
		case "ping":
			err = conn.WritePing(joinSlices(op.Slices))
		case "pong":
			err = conn.WritePong(joinSlices(op.Slices))
		case "string":
			err = conn.WriteString(string(joinSlices(op.Slices)))
		case "writev":
			err = conn.Writev(gws.Opcode(op.Opcode), op.Slices...)
		case "async":
			ch := make(chan error, 1)
			conn.WriteAsync(gws.Opcode(op.Opcode), joinSlices(op.Slices), func(e error) { ch <- e })
			err = waitErr(ch)
		case "writevasync":
			ch := make(chan error, 1)
			conn.WritevAsync(gws.Opcode(op.Opcode), op.Slices, func(e error) { ch <- e })
			err = waitErr(ch)
		case "file":
			if op.StdReader != nil {
				err = conn.WriteFile(gws.Opcode(op.Opcode), op.StdReader)
			} else {
				err = conn.WriteFile(gws.Opcode(op.Opcode), op.Reader)
			}
		case "broadcast":
			b := gws.NewBroadcaster(gws.Opcode(op.Opcode), joinSlices(op.Slices))
			err = b.Broadcast(conn)
			if err == nil {
				// the frame is written by the connection's async queue: wait for it by queueing a marker task behind it
				done := make(chan struct{})
				conn.Async(func() { close(done) })
				select {
				case <-done:
				case <-time.After(5 * time.Second):
					err = errors.New("broadcast task did not run")
				}
			}
			_ = b.Close()
		default:
			panic("unknown api " + op.API)
		}
	}()
	if obs.Res != 9 {
		obs.Res, obs.ErrText = errCode(err)
	}
	calls := tap.writeCalls()
	obs.Calls = calls[before:]
	obs.Wire = joinSlices(obs.Calls)
	obs.CpsAfter, _ = cpsState(conn)
	return obs
}

func waitErr(ch chan error) error {
	select {
	case e := <-ch:
		return e
	case <-time.After(5 * time.Second):
		return errors.New("async completion callback never ran")
	}
}

// connection factory for one role with given options; extensions = what the peer answers/offers.
type connSpec struct {
	Server     bool
	PMD        bool
	SrvTO      bool // server context takeover
	CliTO      bool
	SrvBits    int
	CliBits    int
	Threshold  int
	Level      int
	Utf8       bool
	WLimit     int
	RLimit     int
	Parallel   bool
	ParallelN  int
	Recovery   func(gws.Logger)
	peerDenyTO bool // the scripted peer declines takeover in its offer/answer
}

func (s connSpec) pd() gws.PermessageDeflate {
	return gws.PermessageDeflate{Enabled: s.PMD, ServerContextTakeover: s.SrvTO, ClientContextTakeover: s.CliTO,
		ServerMaxWindowBits: s.SrvBits, ClientMaxWindowBits: s.CliBits, Threshold: s.Threshold, Level: s.Level}
}

// extension header the scripted peer sends (an offer when we are the server, a response when we are the client)
func (s connSpec) peerExtensions() string {
	if !s.PMD {
		return ""
	}
	pd := s.pd()
	if s.peerDenyTO {
		pd.ServerContextTakeover, pd.ClientContextTakeover = false, false
	}
	if pd.ServerMaxWindowBits < 8 || pd.ServerMaxWindowBits > 15 {
		pd.ServerMaxWindowBits = 15
	}
	if pd.ClientMaxWindowBits < 8 || pd.ClientMaxWindowBits > 15 {
		pd.ClientMaxWindowBits = 15
	}
	if s.Server {
		return gws.VerifGenRequestHeader(pd)
	}
	return gws.VerifGenResponseHeader(pd)
}

func (s connSpec) open(h gws.Event) (*gws.Conn, *memConn, error) {
	tap := newMemConn()
	if s.Server {
		opt := &gws.ServerOption{PermessageDeflate: s.pd(), CheckUtf8Enabled: s.Utf8, WriteMaxPayloadSize: s.WLimit,
			ReadMaxPayloadSize: s.RLimit, ParallelEnabled: s.Parallel, ParallelGolimit: s.ParallelN, Recovery: s.Recovery}
		hd := map[string][]string{}
		if ext := s.peerExtensions(); ext != "" {
			hd["Sec-WebSocket-Extensions"] = []string{ext}
		}
		if s.Recovery != nil {
			c, err := serverConn(opt, h, tap, hd)
			if err == nil {
				tap.resetLog()
			}
			return c, tap, err
		}
		// Connections of one configuration are accepted by ONE long-lived Upgrader, as in a real server, with a
		// single-entry compressor pool: deflaters, inflate windows and buffers are re-used from connection to
		// connection, so state that leaks from one connection into the next is observable.
		opt.PermessageDeflate.PoolSize = 1
		rt := sharedUpgrader(fmt.Sprintf("%+v", s), opt)
		c, err := serverConnWith(rt.up, tap, hd)
		if err == nil {
			rt.bind(c, h)
			tap.resetLog()
		}
		return c, tap, err
	}
	opt := &gws.ClientOption{PermessageDeflate: s.pd(), CheckUtf8Enabled: s.Utf8, WriteMaxPayloadSize: s.WLimit,
		ReadMaxPayloadSize: s.RLimit, ParallelEnabled: s.Parallel, ParallelGolimit: s.ParallelN, Recovery: s.Recovery}
	c, _, err := clientConn(opt, h, tap, s.peerExtensions(), nil)
	if err == nil {
		tap.resetLog()
	}
	return c, tap, err
}

// rfcReceiver is the property's oracle for the outbound direction: an RFC 6455 + RFC 7692 receiver
// built on the harness's own codec and Go's compress/flate.
type rfcReceiver struct {
	mu       sync.Mutex
	server   bool // role of the SENDER being observed
	takeover bool // this direction keeps context
	bits     int
	history  []byte
}

// receive decodes the wire bytes of ONE send call; returns the messages (opcode, payload) and a problem description.
func (r *rfcReceiver) receive(wire []byte) (msgs []wireMsg, problem string) {
	fs, rest, err := parseFrames(wire)
	if err != nil {
		return nil, "undecodable frame: " + err.Error()
	}
	if len(rest) != 0 {
		return nil, fmt.Sprintf("%d trailing bytes do not form a complete frame", len(rest))
	}
	for i, f := range fs {
		if p := wfOutbound(f, r.server); p != "" {
			return nil, fmt.Sprintf("frame %d: %s", i, p)
		}
	}
	ms, p := groupMessages(fs)
	if p != "" {
		return nil, p
	}
	for i := range ms {
		if ms[i].Opcode < 8 && ms[i].Compressed {
			var dict []byte
			if r.takeover {
				dict = lastN(r.history, 1<<uint(r.bits))
			}
			out, err := rfc7692Inflate(ms[i].Payload, dict)
			if err != nil {
				return nil, "RFC 7692 receiver cannot inflate the message: " + err.Error()
			}
			if r.bits >= 8 && r.bits <= 15 {
				// a peer that keeps exactly the negotiated window (zlib inflateInit2(-bits)): no reference may reach further back
				src := append(append([]byte(nil), ms[i].Payload...), 0x00, 0x00, 0xff, 0xff, 0x01, 0x00, 0x00, 0xff, 0xff)
				out2, maxDist, ierr := inflateMaxDist(src, dict, 1<<26)
				if ierr == nil && !bytes.Equal(out2, out) {
					return nil, "the two reference inflaters disagree on this message"
				}
				if ierr == nil && maxDist > 1<<uint(r.bits) {
					return nil, fmt.Sprintf("back-reference distance %d exceeds the negotiated window 2^%d: a peer keeping that window cannot inflate the message", maxDist, r.bits)
				}
			}
			if r.takeover {
				r.history = append(r.history, out...)
				if len(r.history) > 1<<16 {
					r.history = append([]byte(nil), r.history[len(r.history)-(1<<15):]...)
				}
			}
			ms[i].Raw = ms[i].Payload
			ms[i].Payload = out
		}
	}
	return ms, ""
}

func goUtf8(b []byte) bool { return utf8.Valid(b) }

// routeHandler lets one Upgrader serve connections that each have their own recording handler.
type routeHandler struct {
	up       *gws.Upgrader
	parallel bool     // message handlers may still be running after OnClose: keep the binding
	m        sync.Map // *gws.Conn -> gws.Event
}

var sharedUps sync.Map // spec text -> *routeHandler

func sharedUpgrader(key string, opt *gws.ServerOption) *routeHandler {
	if v, ok := sharedUps.Load(key); ok {
		return v.(*routeHandler)
	}
	rt := &routeHandler{parallel: opt.ParallelEnabled}
	rt.up = gws.NewUpgrader(rt, opt)
	v, _ := sharedUps.LoadOrStore(key, rt)
	return v.(*routeHandler)
}

func (r *routeHandler) bind(c *gws.Conn, h gws.Event) { r.m.Store(c, h) }
func (r *routeHandler) of(c *gws.Conn) gws.Event {
	if v, ok := r.m.Load(c); ok {
		return v.(gws.Event)
	}
	return gws.BuiltinEventHandler{}
}
func (r *routeHandler) OnOpen(c *gws.Conn) { r.of(c).OnOpen(c) }
func (r *routeHandler) OnClose(c *gws.Conn, err error) {
	r.of(c).OnClose(c, err)
	if !r.parallel {
		r.m.Delete(c)
	}
}
func (r *routeHandler) OnPing(c *gws.Conn, p []byte)          { r.of(c).OnPing(c, p) }
func (r *routeHandler) OnPong(c *gws.Conn, p []byte)          { r.of(c).OnPong(c, p) }
func (r *routeHandler) OnMessage(c *gws.Conn, m *gws.Message) { r.of(c).OnMessage(c, m) }
