package main

import (
	"bytes"
	"compress/flate"
	"errors"
	"io"
	"math/rand"

	"fmt"
	kflate "github.com/klauspost/compress/flate"

	"github.com/lxzan/gws"
)

func init() {
	runners["C03"] = runC03
}

// inbound connection configurations: role x compression (with/without takeover) x utf8 x limit
func inboundSpecs() []connSpec {
	var out []connSpec
	for _, server := range []bool{true, false} {
		out = append(out,
			connSpec{Server: server, Utf8: true, RLimit: 70000},
			connSpec{Server: server, PMD: true, Utf8: true, RLimit: 70000},
			connSpec{Server: server, PMD: true, SrvTO: true, CliTO: true, SrvBits: 10, CliBits: 9, Utf8: false, RLimit: 70000},
		)
	}
	return out
}

// one inbound run: returns false when the harness itself failed
func inboundOne(c *Ctx, spec connSpec, stream []byte, chunkMode int, tag string, prop string) error {
	obs, conn, _, err := runInbound(spec, cutChunks(c, stream, chunkMode))
	if err != nil {
		return err
	}
	takeover, bits := dpsParams(conn)
	limit := spec.RLimit
	if limit <= 0 {
		limit = 16777216
	}
	o := specReceive(spec.Server, conn.VerifPD().Enabled, limit, spec.Utf8, takeover, bits, stream)
	why, sig, skip := judgeStream(o, obs)
	if why != "" {
		c.oracleFail(why+" ["+tag+"]", sig, map[string]any{"spec": fmt.Sprintf("%+v", spec), "stream_hex": fmt.Sprintf("%x", head(stream, 400)), "stream_len": len(stream),
			"chunking": chunkMode, "observed_kind": obs.Kind, "observed_status": obs.A, "close_err": obs.CloseErr, "events": len(obs.Events)})
	}
	if !skip {
		inboundCase(c, spec, conn, stream, o, obs, tag)
	}
	c.count(tag+fmt.Sprintf("%x", head(stream, 48)), len(stream) > 2, fmt.Sprintf("end=%s", o.Kind), fmt.Sprintf("observed_kind=%d", obs.Kind), fmt.Sprintf("chunking=%d", chunkMode), fmt.Sprintf("events=%d", min(len(obs.Events), 5)))
	return nil
}

// frames that put the receiver into a given reassembly state
func statePrefix(state int, masked bool) []byte {
	switch state {
	case 1: // inside a text message
		return encodeFrame(frameSpec{Fin: false, Opcode: 1, Masked: masked, Key: [4]byte{1, 2, 3, 4}, Payload: []byte("he"), DeclLen: -1})
	case 2: // inside a binary message
		return encodeFrame(frameSpec{Fin: false, Opcode: 2, Masked: masked, Key: [4]byte{9, 8, 7, 6}, Payload: []byte{0xff, 0x00}, DeclLen: -1})
	case 3: // inside a compressed text message (RSV1 on the first frame)
		z := rfc7692Deflate([]byte("hello hello hello hello"), nil, 6)
		return encodeFrame(frameSpec{Fin: false, Rsv1: true, Opcode: 1, Masked: masked, Key: [4]byte{5, 5, 5, 5}, Payload: z[:len(z)/2], DeclLen: -1})
	}
	return nil
}

func runC03(c *Ctx) error {
	c.Sum.Rule = "single-frame sweep: every first byte (FIN/RSV/opcode) x mask bit x length class x reassembly state (idle, in text, in binary, in compressed) x compression negotiated or not x both roles, one frame after a state-setting prefix and followed by a valid ping; plus random valid/invalid multi-frame streams under three chunkings; oracle = independent RFC 6455/7692 receiver; non-trivial = stream longer than one header; distinct by (config, stream prefix)"
	specs := inboundSpecs()
	if err := d18Probe(c); err != nil {
		return err
	}
	// 64-bit payload lengths whose most significant bit is set (RFC 6455 5.2: it MUST be 0), small low bits, the
	// announced bytes present: a single frame, and the same as the final fragment of a message
	for _, server := range []bool{true, false} {
		for _, low := range []uint64{0, 5, 125} {
			for _, inFragment := range []bool{false, true} {
				var stream []byte
				op := 2
				if inFragment {
					stream = append(stream, dataFrame(2, false, server, []byte("frag"))...)
					op = 0
				}
				stream = append(stream, encodeFrame(frameSpec{Fin: true, Opcode: op, Masked: server, Key: [4]byte{6, 3, 6, 3}, Payload: bytes.Repeat([]byte("h"), int(low)), UseU64: true, DeclU64: 1<<63 | low, DeclLen: -1})...)
				stream = append(stream, dataFrame(9, true, server, []byte("after"))...)
				spec := connSpec{Server: server, RLimit: 1 << 20}
				if err := inboundOne(c, spec, stream, 0, fmt.Sprintf("len64 top bit set low=%d in-fragment=%v server=%v", low, inFragment, server), "C03"); err != nil {
					return err
				}
			}
		}
	}
	// (i) the sweep
	lenClasses := []struct {
		n    int
		form int
	}{{0, 0}, {1, 0}, {125, 0}, {126, 0}, {5, 1}, {5, 2}, {65535, 0}, {65536, 0}, {70001, 0}}
	idx := 0
	for si, spec := range specs {
		if spec.SrvTO { // the sweep uses the no-takeover configurations; takeover is exercised by the random streams
			continue
		}
		maxState := 2
		if spec.PMD {
			maxState = 3
		}
		for state := 0; state <= maxState; state++ {
			for b0 := 0; b0 < 256; b0++ {
				for _, masked := range []bool{true, false} {
					for li, lc := range lenClasses {
						idx++
						if c.quick() {
							// quick: one rotating length class per header combination (big ones rarely)
							// (the empty frame always: "nothing to do for zero bytes" shortcuts are a class of their own)
							if li != 0 && ((idx+b0+state)%len(lenClasses) != li || (lc.n > 1000 && (b0*7+state)%16 != 0)) {
								continue
							}
						} else if lc.n > 1000 && b0%4 != 0 {
							continue
						}
						payload := make([]byte, lc.n)
						for i := range payload {
							payload[i] = byte('a' + i%26)
						}
						if lc.n >= 2 && b0&15 == 8 {
							payload[0], payload[1] = 0x03, 0xe8 // close status 1000
						}
						fr := encodeFrame(frameSpec{Fin: b0&0x80 != 0, Rsv1: b0&0x40 != 0, Rsv2: b0&0x20 != 0, Rsv3: b0&0x10 != 0, Opcode: b0 & 15,
							Masked: masked, Key: [4]byte{0xa1, 0xb2, 0xc3, 0xd4}, Payload: payload, LenForm: lc.form, DeclLen: -1})
						stream := append(statePrefix(state, spec.Server), fr...)
						// a valid ping behind it: must be delivered iff the frame was acceptable and not a close
						stream = append(stream, encodeFrame(frameSpec{Fin: true, Opcode: 9, Masked: spec.Server, Key: [4]byte{1, 1, 1, 1}, Payload: []byte("after"), DeclLen: -1})...)
						tag := fmt.Sprintf("sweep spec=%d server=%v pmd=%v state=%d b0=%02x masked=%v len=%d form=%d", si, spec.Server, spec.PMD, state, b0, masked, lc.n, lc.form)
						if err := inboundOne(c, spec, stream, 0, tag, "C03"); err != nil {
							return err
						}
					}
				}
			}
		}
	}
	// (ii) random streams
	n := 500
	if !c.quick() {
		n = 6000
	}
	for i := 0; i < n; i++ {
		spec := specs[c.Rng.Intn(len(specs))]
		spec.RLimit = []int{70000, 300, 4096}[c.Rng.Intn(3)]
		stream, desc := randomStream(c, spec, 1+c.Rng.Intn(9), c.Rng.Intn(3) == 0)
		tag := fmt.Sprintf("random i=%d server=%v pmd=%v to=%v limit=%d %s", i, spec.Server, spec.PMD, spec.SrvTO, spec.RLimit, desc)
		if err := inboundOne(c, spec, stream, i%3, tag, "C03"); err != nil {
			return err
		}
	}
	return nil
}

// randomStream builds a mostly valid multi-frame stream for the receiver described by spec (its peer's frames):
// fragmented and unfragmented messages, interleaved control frames, compressed messages (a persistent RFC 7692
// sender when the direction keeps context), and, if corrupt, one violation somewhere.
func randomStream(c *Ctx, spec connSpec, nmsgs int, corrupt bool) ([]byte, string) {
	masked := spec.Server // the receiver is a server => its peer masks
	var out []byte
	var history []byte
	pd := spec.pd()
	takeover, bits := false, 15
	if spec.PMD && !spec.peerDenyTO {
		if spec.Server {
			takeover, bits = pd.ClientContextTakeover, pd.ClientMaxWindowBits
		} else {
			takeover, bits = pd.ServerContextTakeover, pd.ServerMaxWindowBits
		}
		if bits < 8 || bits > 15 {
			bits = 15
		}
	}
	key := func() [4]byte { var k [4]byte; c.Rng.Read(k[:]); return k }
	corruptAt := -1
	if corrupt {
		corruptAt = c.Rng.Intn(nmsgs)
	}
	desc := ""
	for m := 0; m < nmsgs; m++ {
		op := 1 + c.Rng.Intn(2)
		size := []int{0, 1, 5, 125, 126, 200, 300, 1000, 5000}[c.Rng.Intn(9)]
		var payload []byte
		if op == 1 {
			payload = textPayload(c, size, history)
		} else {
			payload = randBytes(c.Rng, size)
		}
		compressed := spec.PMD && c.Rng.Intn(3) != 0
		wire := payload
		if compressed {
			var dict []byte
			if takeover {
				dict = lastN(history, 1<<uint(bits))
			}
			wire = rfc7692Deflate(payload, dict, 1+c.Rng.Intn(9))
			if takeover {
				history = append(history, payload...)
			}
		}
		// fragment
		nfr := 1 + c.Rng.Intn(4)
		parts := splitSlices(c, wire, nfr)
		for fi, p := range parts {
			fs := frameSpec{Fin: fi == len(parts)-1, Rsv1: compressed && fi == 0, Opcode: op, Masked: masked, Key: key(), Payload: p, DeclLen: -1, LenForm: []int{0, 0, 0, 1, 2}[c.Rng.Intn(5)]}
			if fi > 0 {
				fs.Opcode = 0
			}
			if fs.LenForm == 1 && len(p) > 65535 {
				fs.LenForm = 0
			}
			if m == corruptAt && fi == c.Rng.Intn(len(parts)) {
				switch v := c.Rng.Intn(10); v {
				case 0:
					fs.Masked = !fs.Masked
					desc = "corrupt=mask"
				case 1:
					fs.Rsv2 = true
					desc = "corrupt=rsv2"
				case 2:
					fs.Rsv3 = true
					desc = "corrupt=rsv3"
				case 3:
					fs.Rsv1 = !fs.Rsv1
					desc = "corrupt=rsv1-flip"
				case 4:
					fs.Opcode = 3 + c.Rng.Intn(5)
					desc = "corrupt=reserved-opcode"
				case 5:
					fs.Opcode = 11 + c.Rng.Intn(5)
					desc = "corrupt=reserved-control"
				case 6:
					if fi == 0 {
						fs.Opcode = 0
					} else {
						fs.Opcode = 1 + c.Rng.Intn(2)
					}
					desc = "corrupt=fragment-order"
				case 7:
					fs.Opcode, fs.Fin, fs.Rsv1 = 9, false, false
					desc = "corrupt=fragmented-ping"
				case 8:
					fs.Opcode, fs.Fin, fs.Rsv1, fs.Payload = 9, true, false, make([]byte, 126)
					desc = "corrupt=long-ping"
				case 9:
					if op == 1 && !compressed {
						fs.Payload = append(append([]byte(nil), fs.Payload...), 0xc0)
					}
					desc = "corrupt=maybe-utf8"
				}
			}
			out = append(out, encodeFrame(fs)...)
			// control frames between fragments
			if c.Rng.Intn(3) == 0 {
				cop := 9 + c.Rng.Intn(2)
				out = append(out, encodeFrame(frameSpec{Fin: true, Opcode: cop, Masked: masked, Key: key(), Payload: head(payload, c.Rng.Intn(126)), DeclLen: -1})...)
			}
		}
	}
	switch c.Rng.Intn(4) {
	case 0: // peer closes
		body := []byte{}
		if c.Rng.Intn(2) == 0 {
			code := []int{1000, 1001, 1002, 1005, 1014, 1015, 2999, 3000, 4999, 5000, 999, 0}[c.Rng.Intn(12)]
			body = append([]byte{byte(code >> 8), byte(code)}, []byte("bye")...)
		}
		out = append(out, encodeFrame(frameSpec{Fin: true, Opcode: 8, Masked: masked, Key: key(), Payload: body, DeclLen: -1})...)
		desc += " +close"
	case 1: // truncate inside the last frame
		if len(out) > 3 {
			out = out[:len(out)-1-c.Rng.Intn(min(len(out)-1, 20))]
			desc += " +truncated"
		}
	}
	return out, desc
}

var _ = gws.OpcodeText

// d18Probe (known finding D18): search the truncations of one compressed text for a cut that the pinned inflater accepts
// although the stream is incomplete, and send it as a whole compressed message.
func d18Probe(c *Ctx) error {
	rng := rand.New(rand.NewSource(18))
	words := []string{"alpha ", "beta ", "gamma ", "delta ", "lorem ipsum dolor sit amet ", "\u043a\u043b\u044e\u0447 ", "\u4e2d\u6587 "}
	for attempt := 0; attempt < 20; attempt++ {
		var text []byte
		for len(text) < 3000 {
			text = append(text, words[rng.Intn(len(words))]...)
		}
		if found, err := d18Try(c, text); found || err != nil {
			return err
		}
	}
	c.Sum.Notes = append(c.Sum.Notes, "d18 probe: no truncation of the probe texts is accepted by the pinned inflater")
	return nil
}

func d18Try(c *Ctx, text []byte) (bool, error) {
	z := rfc7692Deflate(text, nil, 6)
	tail := []byte{0x00, 0x00, 0xff, 0xff, 0x01, 0x00, 0x00, 0xff, 0xff}
	for cut := len(z) - 1; cut > 4; cut-- {
		src := append(append([]byte(nil), z[:cut]...), tail...)
		_, e1 := io.ReadAll(flate.NewReader(bytes.NewReader(src)))
		_, e2 := io.ReadAll(kflate.NewReader(bytes.NewReader(src)))
		if !(errors.Is(e1, io.ErrUnexpectedEOF) && e2 == nil) {
			continue
		}
		for _, server := range []bool{true, false} {
			spec := connSpec{Server: server, PMD: true, RLimit: 1 << 20}
			stream := encodeFrame(frameSpec{Fin: true, Rsv1: true, Opcode: 1, Masked: server, Key: [4]byte{7, 7, 7, 7}, Payload: z[:cut], DeclLen: -1})
			stream = append(stream, dataFrame(9, true, server, []byte("after"))...)
			if err := inboundOne(c, spec, stream, 0, fmt.Sprintf("d18 probe: compressed message cut at %d of %d server=%v", cut, len(z), server), "C03"); err != nil {
				return true, err
			}
		}
		return true, nil
	}
	return false, nil
}
