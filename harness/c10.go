package main

// C10 - server handshake: upgrade exactly the valid, authorised requests.
//
// Every case feeds a raw HTTP request to an in-memory transport, parses it with net/http (trusted),
// calls Upgrader.UpgradeFromConn and observes: the returned (*Conn, error), every byte written,
// whether the transport was closed, Conn.SubProtocol(), Conn.Session().
// Oracle: the rule of the property statement written here in Go, independently of gws (crypto/sha1 +
// encoding/base64 for the accept value, own token splitting).  Model comparison: every case is replayed
// on Model/Handshake.v (check "C10"), every (key, accept) pair on Model/Sha1.v+Base64.v ("C10acc").

import (
	"bufio"
	"bytes"
	"crypto/sha1"
	"encoding/base64"
	"fmt"
	"net/http"
	"sort"
	"strings"

	"github.com/lxzan/gws"
)

func init() { runners["C10"] = runC10 }

const hsRFCGUID = "258EAFA5-E914-47DA-95CA-C5AB0DC85B11"

func hsOracleAccept(key string) string {
	h := sha1.Sum([]byte(key + hsRFCGUID))
	return base64.StdEncoding.EncodeToString(h[:])
}

var hsProtectedNames = []string{"Upgrade", "Connection", "Sec-WebSocket-Accept", "Sec-WebSocket-Extensions", "Sec-WebSocket-Protocol"}

func hsLower(s string) string {
	b := []byte(s)
	for i, c := range b {
		if 'A' <= c && c <= 'Z' {
			b[i] = c + 32
		}
	}
	return string(b)
}

func hsIsASCII(s string) bool {
	for i := 0; i < len(s); i++ {
		if s[i] >= 0x80 {
			return false
		}
	}
	return true
}

// comma-separated tokens, optional white space (SP / HTAB) around them removed
func hsOracleTokens(v string) []string {
	var out []string
	for _, p := range strings.Split(v, ",") {
		out = append(out, strings.Trim(p, " \t"))
	}
	return out
}

func hsOracleHasToken(v, tok string) bool {
	for _, t := range hsOracleTokens(v) {
		if hsLower(t) == tok {
			return true
		}
	}
	return false
}

func hsFirstValue(h http.Header, name string) string {
	// case-insensitive name match over the parsed map, first value
	for k, v := range h {
		if hsLower(k) == hsLower(name) && len(v) > 0 {
			return v[0]
		}
	}
	return ""
}

// ---------------------------------------------------------------------------------------------

type c10server struct {
	desc       string
	subs       []string
	pmd        bool
	configured [][2]string // ResponseHeader as configured (key spelled as given, first value)
	canonCfg   bool        // every configured key is in canonical form
	up         *gws.Upgrader
	opt        *gws.ServerOption
	// per-case communication with Authorize
	authOK   bool
	marker   int
	lastSess gws.SessionStorage
	freshOK  bool
	sessions []gws.SessionStorage
}

type hdrSpec struct {
	name   string
	direct bool // assign the key as spelled (http.Header[k] = ...) instead of Header.Set
	vals   []string
}

func newC10Server(desc string, subs []string, pmd gws.PermessageDeflate, hs []hdrSpec) *c10server {
	s := &c10server{desc: desc, subs: subs, pmd: pmd.Enabled, canonCfg: true}
	var rh http.Header
	if hs != nil {
		rh = http.Header{}
		for _, h := range hs {
			if h.direct {
				rh[h.name] = h.vals
			} else {
				rh.Del(h.name)
				for _, v := range h.vals {
					rh.Add(h.name, v)
				}
			}
		}
		for k, v := range rh {
			first := ""
			if len(v) > 0 {
				first = v[0]
			}
			s.configured = append(s.configured, [2]string{k, first})
			if http.CanonicalHeaderKey(k) != k {
				s.canonCfg = false
			}
		}
		sort.Slice(s.configured, func(i, j int) bool { return s.configured[i][0] < s.configured[j][0] })
	}
	s.opt = &gws.ServerOption{
		SubProtocols:      subs,
		PermessageDeflate: pmd,
		ResponseHeader:    rh,
		Authorize: func(r *http.Request, session gws.SessionStorage) bool {
			s.freshOK = session.Len() == 0
			session.Store("marker", s.marker)
			s.lastSess = session
			return s.authOK
		},
	}
	s.up = gws.NewUpgrader(&recHandler{}, s.opt)
	return s
}

type c10line struct{ name, value string }

type c10case struct {
	method string
	lines  []c10line
	auth   bool
}

func (q *c10case) raw() []byte {
	var b strings.Builder
	fmt.Fprintf(&b, "%s /ws HTTP/1.1\r\nHost: mem.test\r\n", q.method)
	for _, l := range q.lines {
		fmt.Fprintf(&b, "%s: %s\r\n", l.name, l.value)
	}
	b.WriteString("\r\n")
	return []byte(b.String())
}

func hsRandCase(c *Ctx, s string) string {
	b := []byte(s)
	for i, ch := range b {
		if c.Rng.Intn(2) == 0 {
			if 'a' <= ch && ch <= 'z' {
				b[i] = ch - 32
			} else if 'A' <= ch && ch <= 'Z' {
				b[i] = ch + 32
			}
		}
	}
	return string(b)
}

func hsPick(c *Ctx, xs []string) string { return xs[c.Rng.Intn(len(xs))] }

const hsAbsent = "\x00absent"

var (
	c10ConnValid    = []string{"Upgrade", "upgrade", "UPGRADE", "keep-alive, Upgrade", "Upgrade, keep-alive", "keep-alive,upgrade", "keep-alive ,  UpGrAdE", "upgrade\t", "a, b, upgrade, c", "Upgrade,", ",upgrade"}
	c10ConnInvalid  = []string{hsAbsent, "", "keep-alive", "close", "upgrad", "up grade", "pgrade", "keep-alive, close", "u,pgrade", "upgrad e"}
	c10ConnDontCare = []string{"upgrades", "xupgrade", "no-upgrade, keep-alive", "keep-alive, upgrade-insecure", "upgrade=1"}
	c10UpgValid     = []string{"websocket", "WebSocket", "WEBSOCKET", "wEbSoCkEt"}
	c10UpgInvalid   = []string{hsAbsent, "", "h2c", "websocket2", "websocke", "ebsocket", "websocket, h2c", "h2c, websocket", "web socket", "websocket/13"}
	c10UpgDontCare  = []string{"websocKet", "webſocket", "WEBſOCKET", "websoc\xe2\x84et", "w\xc5\xbfbsocket"}
	c10VerValid     = []string{"13"}
	c10VerInvalid   = []string{hsAbsent, "", "12", "8", "14", "013", "1 3", "13, 8", "13.0", "1", "3", "131", "x13"}
	c10KeyInvalid   = []string{hsAbsent, ""}
	c10MethInvalid  = []string{"POST", "PUT", "HEAD", "get", "OPTIONS", "GETX", "DELETE"}
	c10Offers       = []string{hsAbsent, "chat", "chat, superchat", "superchat,chat", " chat ,  superchat ", "a,b,c", "", ",", "chat,,", "CHAT", "superchat", "c , b,a", "chat\t,\tmqtt", "graphql-ws", "chatx", "cha", "x, chat"}
	c10ExtOffers    = []string{hsAbsent, "permessage-deflate", "permessage-deflate; client_max_window_bits", "permessage-deflate; server_no_context_takeover; client_no_context_takeover",
		"permessage-deflate; server_max_window_bits=10; client_max_window_bits=12", "x-webkit-deflate-frame", "PERMESSAGE-DEFLATE", "", "foo, permessage-deflate", "permessage-deflat", "xpermessage-deflatex"}
)

func c10Servers() []*c10server {
	var out []*c10server
	subsets := [][]string{nil, {"chat"}, {"superchat", "chat"}, {"chat", "superchat"}, {"x"}, {"b", "a"}, {"", "chat"}, {"mqtt", "graphql-ws", "a"}}
	pmds := []gws.PermessageDeflate{
		{},
		{Enabled: true},
		{Enabled: true, ServerContextTakeover: true, ClientContextTakeover: true, ServerMaxWindowBits: 10, ClientMaxWindowBits: 12},
		{Enabled: true, ServerContextTakeover: true, Level: 6, Threshold: 64},
	}
	hdrs := [][]hdrSpec{
		nil,
		{{"X-Server", false, []string{"gws-verif"}}},
		{{"X-Server", false, []string{"one", "two"}}, {"Set-Cookie", false, []string{"a=b"}}, {"Upgrade", false, []string{"h2c"}}, {"connection", false, []string{"close"}}},
		{{"Sec-WebSocket-Accept", false, []string{"evil"}}, {"SEC-WEBSOCKET-PROTOCOL", false, []string{"evil"}}, {"sec-websocket-extensions", false, []string{"permessage-deflate"}}, {"X-A", false, []string{"1"}}},
		// keys assigned as spelled (not via Set): RFC spelling, lower case, upper case
		{{"Sec-WebSocket-Accept", true, []string{"evil"}}, {"Sec-WebSocket-Protocol", true, []string{"evil"}}, {"Sec-WebSocket-Extensions", true, []string{"permessage-deflate"}}},
		{{"upgrade", true, []string{"h2c"}}, {"CONNECTION", true, []string{"close"}}, {"x-lower", true, []string{"v"}}, {"X-Lower", true, []string{"canon"}}},
		{{"Upgrade", true, []string{"h2c"}}, {"upgrade", true, []string{"h2c"}}, {"Sec-Websocket-Accept", true, []string{"evil"}}, {"sec-websocket-accept", true, []string{"evil2"}}, {"X-Empty", true, []string{}}},
		{{"X_Under.score", true, []string{"v"}}, {"X-Multi", false, []string{"", "second"}}, {"x-9a-b", true, []string{"w"}}},
	}
	for i, su := range subsets {
		for j, pd := range pmds {
			for k, hs := range hdrs {
				// all (subs x pmd) pairs with two header sets each; every header set with every pmd
				if !((k == (i+j)%len(hdrs)) || (k == (i*3+j+4)%len(hdrs)) || i == j%len(subsets)) {
					continue
				}
				out = append(out, newC10Server(fmt.Sprintf("subs=%q pmd=%d hdr=%d", su, j, k), su, pd, hs))
			}
		}
	}
	return out
}

type hsLine struct{ name, value string }

// split an HTTP head into status line and header lines exactly as written
func hsSplitHead(b []byte) (status string, lines []hsLine, body []byte, ok bool) {
	i := bytes.Index(b, []byte("\r\n\r\n"))
	if i < 0 {
		return "", nil, nil, false
	}
	head := string(b[:i])
	body = b[i+4:]
	parts := strings.Split(head, "\r\n")
	status = parts[0]
	for _, p := range parts[1:] {
		j := strings.Index(p, ": ")
		if j < 0 {
			return status, lines, body, false
		}
		lines = append(lines, hsLine{p[:j], p[j+2:]})
	}
	return status, lines, body, true
}

func hsPairs(ps [][2]string) VL {
	out := VL{}
	for _, p := range ps {
		out = append(out, VL{VB(p[0]), VB(p[1])})
	}
	return out
}

func hsStrs(xs []string) VL {
	out := VL{}
	for _, x := range xs {
		out = append(out, VB(x))
	}
	return out
}

func runC10(c *Ctx) error {
	c.Sum.Rule = "raw upgrade requests (valid under header-name/value case changes, Connection token lists, extra headers, extension and subprotocol offers; invalid with each mandatory element missing/altered singly and in pairs; random mixes) x server options {subprotocol lists x permessage-deflate settings x ResponseHeader sets incl. attempts to override protected headers in several spellings}; non-trivial = parsed by net/http; distinct by (request bytes, server option set, authorise)"
	servers := c10Servers()
	nRandom := 2500
	if !c.quick() {
		nRandom = 150000
	}
	marker := 0
	sigCount := map[string]int{}

	runOne := func(sv *c10server, q *c10case, tag string) {
		raw := q.raw()
		conn := newMemConn()
		conn.feed(raw)
		br := bufio.NewReaderSize(conn, 4096)
		r, perr := http.ReadRequest(br)
		if perr != nil {
			c.count("parse-error", false, "request=unparsable(skipped)")
			return
		}
		marker++
		sv.authOK, sv.marker, sv.lastSess, sv.freshOK = q.auth, marker, nil, false
		sock, err := sv.up.UpgradeFromConn(conn, br, r)
		written := conn.written()
		closed, _ := conn.isClosed()
		replay := map[string]any{"request": string(raw), "server": sv.desc, "authorize": q.auth, "written": string(written)}
		fail := func(sig, format string, a ...any) {
			if sigCount[sig]++; sigCount[sig] > 4 {
				return // a few concrete inputs per kind of failure, so that later kinds are not crowded out
			}
			c.oracleFail(fmt.Sprintf(format, a...)+fmt.Sprintf(" | request=%q server{%s} authorize=%v", raw, sv.desc, q.auth), sig, replay)
		}

		// ---- the rule of the statement, on the parsed request
		hd := r.Header
		ver, upg, con, key := hsFirstValue(hd, "Sec-WebSocket-Version"), hsFirstValue(hd, "Upgrade"), hsFirstValue(hd, "Connection"), hsFirstValue(hd, "Sec-WebSocket-Key")
		var offered []string
		for _, t := range hsOracleTokens(hsFirstValue(hd, "Sec-WebSocket-Protocol")) {
			if t != "" {
				offered = append(offered, t)
			}
		}
		wantSub := ""
		for _, s := range sv.subs {
			for _, o := range offered {
				if s == o && wantSub == "" && s != "" {
					wantSub = s
				}
			}
		}
		hasTok := hsOracleHasToken(con, "upgrade")
		dontCare := (!hasTok && strings.Contains(hsLower(con), "upgrade")) || !hsIsASCII(upg)
		valid := r.Method == "GET" && ver == "13" && hsLower(upg) == "websocket" && hasTok && key != "" && q.auth && (len(sv.subs) == 0 || wantSub != "")
		upgraded := sock != nil

		if (sock != nil) != (err == nil) {
			fail("c10-conn-err-mismatch", "returned conn=%v err=%v", sock != nil, err)
		}
		if !dontCare && valid != upgraded {
			fail("c10-decision", "valid=%v but upgraded=%v (err=%v)", valid, upgraded, err)
		}

		status, lines, body, okHead := hsSplitHead(written)
		var pmdResp, date string
		var extraOrder []string
		connSub, connPMD := "", false
		if upgraded {
			connSub, connPMD = sock.SubProtocol(), sock.VerifPD().Enabled
			resp, rerr := http.ReadResponse(bufio.NewReader(bytes.NewReader(written)), r)
			switch {
			case rerr != nil || !okHead:
				fail("c10-response-unparsable", "101 response does not parse: %v", rerr)
			default:
				if resp.StatusCode != 101 || status != "HTTP/1.1 101 Switching Protocols" {
					fail("c10-status", "upgraded but status line %q", status)
				}
				if len(body) != 0 {
					fail("c10-trailing-bytes", "bytes behind the 101 head: %q", body)
				}
				if closed {
					fail("c10-closed-after-upgrade", "transport closed although a connection was returned")
				}
				rh := resp.Header
				if v := rh.Values("Upgrade"); len(v) == 0 || hsLower(v[0]) != "websocket" {
					fail("c10-resp-upgrade", "Upgrade header %q", v)
				}
				if v := rh.Values("Connection"); len(v) == 0 || !hsOracleHasToken(v[0], "upgrade") {
					fail("c10-resp-connection", "Connection header %q", v)
				}
				if v := rh.Values("Sec-WebSocket-Accept"); len(v) == 0 || v[0] != hsOracleAccept(key) {
					fail("c10-accept", "Sec-WebSocket-Accept %q, want %q for key %q", v, hsOracleAccept(key), key)
				}
				pv := rh.Values("Sec-WebSocket-Protocol")
				if len(sv.subs) == 0 {
					if connSub != "" {
						fail("c10-subprotocol", "no server subprotocols but conn.SubProtocol()=%q", connSub)
					}
				} else {
					if len(pv) == 0 || pv[0] != wantSub || connSub != wantSub {
						fail("c10-subprotocol", "selected %q / conn.SubProtocol()=%q, want first server-preferred common %q (server %q, offered %q)", pv, connSub, wantSub, sv.subs, offered)
					}
				}
				ev := rh.Values("Sec-WebSocket-Extensions")
				extOffered := strings.Contains(hsLower(hsFirstValue(hd, "Sec-WebSocket-Extensions")), "permessage-deflate")
				serverSentExt := false
				for _, l := range lines {
					if hsLower(l.name) == "sec-websocket-extensions" && l.value != "" {
						serverSentExt = true
						if !(extOffered && sv.pmd) {
							fail("c10-extension", "extension header %q written but offered=%v enabled=%v", l.value, extOffered, sv.pmd)
						}
						if !strings.Contains(l.value, "permessage-deflate") {
							fail("c10-extension", "extension header %q is not permessage-deflate", l.value)
						}
					}
				}
				if connPMD != serverSentExt {
					fail("c10-extension", "conn pd.Enabled=%v but extension header sent=%v (%q)", connPMD, serverSentExt, ev)
				}
				// protected names: the first value is the server's own, further values (from ResponseHeader) are empty;
				// with canonical configured keys nothing is added at all
				emitted := map[string]int{"Upgrade": 1, "Connection": 1, "Sec-WebSocket-Accept": 1}
				if serverSentExt {
					emitted["Sec-WebSocket-Extensions"] = 1
				}
				if len(sv.subs) > 0 {
					emitted["Sec-WebSocket-Protocol"] = 1
				}
				for _, p := range hsProtectedNames {
					vals := rh.Values(p)
					if len(vals) < emitted[p] {
						continue // reported above
					}
					for _, x := range vals[emitted[p]:] {
						if x != "" {
							fail("c10-protected-override", "configured ResponseHeader put value %q under protected name %s (all values %q)", x, p, vals)
						}
					}
					if sv.canonCfg && len(vals) != emitted[p] {
						fail("c10-protected-override", "protected name %s occurs %d times, the server itself writes it %d times", p, len(vals), emitted[p])
					}
				}
				// configured non-protected extras are present with their first value
				for _, kv := range sv.configured {
					prot := false
					for _, p := range hsProtectedNames {
						if hsLower(p) == hsLower(kv[0]) {
							prot = true
						}
					}
					if prot || http.CanonicalHeaderKey(kv[0]) != kv[0] {
						continue
					}
					found := false
					for _, l := range lines {
						if l.name == kv[0] && l.value == kv[1] {
							found = true
						}
					}
					if !found {
						fail("c10-extra-missing", "configured header %s: %q not written", kv[0], kv[1])
					}
				}
			}
			// session: the object given to Authorize is the connection's; fresh per upgrade; values isolated
			if sock.Session() != sv.lastSess {
				fail("c10-session-identity", "conn.Session() is not the object handed to Authorize")
			}
			if v, ok := sock.Session().Load("marker"); !ok || v != marker {
				fail("c10-session-value", "session marker = %v (present=%v), want %d", v, ok, marker)
			}
			if !sv.freshOK {
				fail("c10-session-fresh", "session handed to Authorize already held values")
			}
			for _, old := range sv.sessions {
				if old == sock.Session() {
					fail("c10-session-shared", "two upgrades share one session object")
				}
			}
			if len(sv.sessions) < 64 {
				sv.sessions = append(sv.sessions, sock.Session())
			}
			for _, l := range lines {
				if hsLower(l.name) == "sec-websocket-extensions" && pmdResp == "" {
					pmdResp = l.value
				}
			}
			nExtra := len(sv.opt.ResponseHeader)
			if okHead && nExtra <= len(lines) {
				for _, l := range lines[len(lines)-nExtra:] {
					extraOrder = append(extraOrder, l.name)
				}
			}
			c.addCase("C10acc", VL{VB(key), VB(hsFirstValueRaw(lines, "sec-websocket-accept"))}, "accept "+tag)
		} else {
			// no 101, an HTTP error, transport closed, nil connection
			if !closed {
				fail("c10-reject-not-closed", "request rejected (err=%v) but the transport was left open", err)
			}
			if bytes.Contains(written, []byte(" 101 ")) || bytes.HasPrefix(written, []byte("HTTP/1.1 101")) {
				fail("c10-reject-101", "request rejected but a 101 was written: %q", written)
			}
			resp, rerr := http.ReadResponse(bufio.NewReader(bytes.NewReader(written)), r)
			if rerr != nil || resp.StatusCode < 400 || resp.StatusCode > 599 {
				fail("c10-reject-no-http-error", "request rejected but no HTTP error response was written: %q (%v)", written, rerr)
			}
			for _, l := range lines {
				if l.name == "Date" {
					date = l.value
				}
			}
			_ = status
		}
		_ = conn.Close()

		// ---- model case
		var reqH [][2]string
		for k, v := range hd {
			if len(v) > 0 {
				reqH = append(reqH, [2]string{k, v[0]})
			}
		}
		sort.Slice(reqH, func(i, j int) bool { return reqH[i][0] < reqH[j][0] })
		extra := hsOrderExtras(sv.configured, extraOrder)
		c.addCase("C10", VL{VB(r.Method), hsPairs(reqH), vbool(q.auth), hsStrs(sv.subs), vbool(sv.pmd), hsPairs(extra),
			VB(pmdResp), VB(date), vbool(upgraded), VB(written), vbool(closed), VB(connSub), vbool(connPMD)}, tag)
		cls := "rejected"
		if upgraded {
			cls = "upgraded"
		}
		if dontCare {
			cls += "(dont-care)"
		}
		c.count(string(raw)+"|"+sv.desc+fmt.Sprint(q.auth), true, "decision="+cls, "server-subs="+fmt.Sprint(len(sv.subs)), "server-pmd="+fmt.Sprint(sv.pmd))
		if (upgraded && connSub != "" && connPMD) || (!upgraded && len(c.Sum.Samples) < 2) {
			c.sample(map[string]any{"request": string(raw), "server": sv.desc, "authorize": q.auth, "upgraded": upgraded, "written": string(written), "closed": closed})
		}
	}

	base := func() map[string]string {
		return map[string]string{"method": "GET", "Connection": "Upgrade", "Upgrade": "websocket", "Sec-WebSocket-Version": "13", "Sec-WebSocket-Key": testKey,
			"Sec-WebSocket-Protocol": hsAbsent, "Sec-WebSocket-Extensions": hsAbsent}
	}
	order := []string{"Connection", "Upgrade", "Sec-WebSocket-Version", "Sec-WebSocket-Key", "Sec-WebSocket-Protocol", "Sec-WebSocket-Extensions"}
	build := func(f map[string]string, auth bool, caseMode int, shuffle bool, extras []c10line) *c10case {
		q := &c10case{method: f["method"], auth: auth}
		names := append([]string(nil), order...)
		if shuffle {
			c.Rng.Shuffle(len(names), func(i, j int) { names[i], names[j] = names[j], names[i] })
		}
		for _, n := range names {
			if f[n] == hsAbsent {
				continue
			}
			name := n
			switch caseMode {
			case 1:
				name = strings.ToLower(n)
			case 2:
				name = strings.ToUpper(n)
			case 3:
				name = hsRandCase(c, n)
			}
			q.lines = append(q.lines, c10line{name, f[n]})
		}
		for _, e := range extras {
			at := c.Rng.Intn(len(q.lines) + 1)
			q.lines = append(q.lines[:at], append([]c10line{e}, q.lines[at:]...)...)
		}
		return q
	}
	randKey := func() string { return base64.StdEncoding.EncodeToString(randBytes(c.Rng, 16)) }

	// 1. valid requests: every Connection / Upgrade spelling x header-name case x every server
	for si, sv := range servers {
		for i, cv := range c10ConnValid {
			f := base()
			f["Connection"] = cv
			f["Upgrade"] = c10UpgValid[(i+si)%len(c10UpgValid)]
			f["Sec-WebSocket-Key"] = randKey()
			f["Sec-WebSocket-Protocol"] = c10Offers[(i*5+si)%len(c10Offers)]
			f["Sec-WebSocket-Extensions"] = c10ExtOffers[(i*3+si)%len(c10ExtOffers)]
			runOne(sv, build(f, true, (i+si)%4, i%2 == 1, nil), "valid-spelling")
		}
		// every subprotocol offer and every extension offer against this server
		for i, of := range c10Offers {
			f := base()
			f["Sec-WebSocket-Protocol"] = of
			f["Sec-WebSocket-Extensions"] = c10ExtOffers[(i+si)%len(c10ExtOffers)]
			runOne(sv, build(f, true, 0, false, nil), "offers")
		}
	}
	// 1b. the single common subprotocol at every position 0..7 of the client's offer, for every entry of the server's list
	for si, sv := range servers {
		if len(sv.subs) == 0 || si%2 == 1 {
			continue
		}
		for _, want := range sv.subs {
			if want == "" {
				continue
			}
			for pos := 0; pos < 8; pos++ {
				var parts []string
				for k := 0; k < 8; k++ {
					if k == pos {
						parts = append(parts, want)
					} else {
						parts = append(parts, fmt.Sprintf("z%d", k))
					}
				}
				f := base()
				f["Sec-WebSocket-Protocol"] = strings.Join(parts[:pos+1+(7-pos)*(si/2%2)], []string{",", ", "}[pos%2])
				runOne(sv, build(f, true, 0, false, nil), "offer-position")
			}
		}
	}
	// 2. each mandatory element missing / altered, one at a time, on a few servers
	alter := map[string][]string{"method": c10MethInvalid, "Connection": c10ConnInvalid, "Upgrade": c10UpgInvalid, "Sec-WebSocket-Version": c10VerInvalid, "Sec-WebSocket-Key": c10KeyInvalid}
	elems := []string{"method", "Connection", "Upgrade", "Sec-WebSocket-Version", "Sec-WebSocket-Key", "authorize", "subprotocol"}
	apply := func(f map[string]string, auth *bool, e string, variant int) {
		switch e {
		case "authorize":
			*auth = false
		case "subprotocol":
			f["Sec-WebSocket-Protocol"] = []string{hsAbsent, "nothing-in-common", "", "CHAT, X"}[variant%4]
		default:
			f[e] = alter[e][variant%len(alter[e])]
		}
	}
	for si, sv := range servers {
		if !(si%5 == 0 || len(sv.subs) > 0 && si%3 == 0) {
			continue
		}
		for _, e := range elems {
			n := 4
			if a, ok := alter[e]; ok {
				n = len(a)
			}
			for v := 0; v < n; v++ {
				f, auth := base(), true
				f["Sec-WebSocket-Protocol"] = "chat, superchat, a, x, mqtt"
				apply(f, &auth, e, v)
				runOne(sv, build(f, auth, v%4, false, nil), "one-altered:"+e)
			}
		}
		// pairs
		for i := 0; i < len(elems); i++ {
			for j := i + 1; j < len(elems); j++ {
				f, auth := base(), true
				f["Sec-WebSocket-Protocol"] = "chat, superchat, a, x, mqtt"
				apply(f, &auth, elems[i], c.Rng.Intn(50))
				apply(f, &auth, elems[j], c.Rng.Intn(50))
				runOne(sv, build(f, auth, c.Rng.Intn(4), true, nil), "two-altered:"+elems[i]+"+"+elems[j])
			}
		}
		// don't-care region (substring vs token; Unicode folding): model comparison only
		for _, cv := range c10ConnDontCare {
			f := base()
			f["Connection"] = cv
			runOne(sv, build(f, true, 0, false, nil), "dont-care:connection")
		}
		for _, uv := range c10UpgDontCare {
			f := base()
			f["Upgrade"] = uv
			runOne(sv, build(f, true, 0, false, nil), "dont-care:upgrade")
		}
	}
	// 3. random mixes
	extraPool := []c10line{{"Origin", "http://mem.test"}, {"Cookie", "a=b; c=d"}, {"User-Agent", "verif/1"}, {"X-Forwarded-For", "10.0.0.1"}, {"Cache-Control", "no-cache"},
		{"Pragma", "no-cache"}, {"Accept-Encoding", "gzip, deflate"}, {"Sec-WebSocket-Protocol", "second-line, chat"}, {"Connection", "second-line"}, {"X-Upgrade", "websocket"}, {"Authorization", "Bearer x"}}
	for n := 0; n < nRandom; n++ {
		sv := servers[c.Rng.Intn(len(servers))]
		f, auth := base(), c.Rng.Intn(8) != 0
		choose := func(name string, good, bad []string, pBad int) {
			if c.Rng.Intn(pBad) == 0 {
				f[name] = hsPick(c, bad)
			} else {
				f[name] = hsPick(c, good)
			}
			if c.Rng.Intn(3) == 0 && f[name] != hsAbsent {
				f[name] = hsRandCase(c, f[name])
			}
		}
		choose("Connection", c10ConnValid, c10ConnInvalid, 9)
		choose("Upgrade", c10UpgValid, c10UpgInvalid, 9)
		if c.Rng.Intn(9) == 0 {
			f["Sec-WebSocket-Version"] = hsPick(c, c10VerInvalid)
		}
		switch c.Rng.Intn(12) {
		case 0:
			f["Sec-WebSocket-Key"] = hsPick(c, c10KeyInvalid)
		case 1:
			f["Sec-WebSocket-Key"] = string(hsRandPrintable(c, 1+c.Rng.Intn(90)))
		default:
			f["Sec-WebSocket-Key"] = randKey()
		}
		if c.Rng.Intn(12) == 0 {
			f["method"] = hsPick(c, c10MethInvalid)
		}
		f["Sec-WebSocket-Protocol"] = hsPick(c, c10Offers)
		if c.Rng.Intn(3) == 0 && len(sv.subs) > 0 {
			// an offer built from the server's list, shuffled and padded
			parts := append([]string{"zz"}, sv.subs...)
			c.Rng.Shuffle(len(parts), func(i, j int) { parts[i], parts[j] = parts[j], parts[i] })
			parts = parts[:1+c.Rng.Intn(len(parts))]
			f["Sec-WebSocket-Protocol"] = strings.Join(parts, hsPick(c, []string{",", ", ", " , ", "\t,"}))
		}
		f["Sec-WebSocket-Extensions"] = hsPick(c, c10ExtOffers)
		var extras []c10line
		for k := c.Rng.Intn(4); k > 0; k-- {
			extras = append(extras, extraPool[c.Rng.Intn(len(extraPool))])
		}
		runOne(sv, build(f, auth, c.Rng.Intn(4), c.Rng.Intn(2) == 0, extras), "random")
	}
	// 4. accept keys of every length across the SHA-1 padding boundaries (key+36 bytes: 55/56, 63/64, 119/120)
	maxLen := 100
	if !c.quick() {
		maxLen = 300
	}
	for n := 0; n <= maxLen; n++ {
		for rep := 0; rep < 2; rep++ {
			key := string(randBytes(c.Rng, n))
			if rep == 1 {
				key = string(hsRandPrintable(c, n))
			}
			got := gws.VerifComputeAcceptKey(key)
			if got != hsOracleAccept(key) {
				c.oracleFail(fmt.Sprintf("ComputeAcceptKey(%q) = %q, base64(sha1(key+GUID)) = %q", key, got, hsOracleAccept(key)), "c10-accept", map[string]any{"key": []byte(key)})
			}
			c.addCase("C10acc", VL{VB(key), VB(got)}, fmt.Sprintf("accept len=%d", n))
			c.count("acc"+key, n > 0, "accept-key-len%64="+fmt.Sprint((n+36)%64/16*16))
		}
	}
	return nil
}

func hsFirstValueRaw(lines []hsLine, lowerName string) string {
	for _, l := range lines {
		if hsLower(l.name) == lowerName {
			return l.value
		}
	}
	return ""
}

func hsRandPrintable(c *Ctx, n int) []byte {
	b := make([]byte, n)
	for i := range b {
		b[i] = byte(33 + c.Rng.Intn(94))
	}
	return b
}

// hsOrderExtras lists the configured ResponseHeader entries in the order the implementation iterated its map
// (observed names of the trailing header lines); entries that were not written (deleted) follow.
func hsOrderExtras(configured [][2]string, observed []string) [][2]string {
	used := make([]bool, len(configured))
	var out [][2]string
	for _, name := range observed {
		for i, kv := range configured {
			if !used[i] && kv[0] == name {
				used[i] = true
				out = append(out, kv)
				break
			}
		}
	}
	for i, kv := range configured {
		if !used[i] {
			out = append(out, kv)
		}
	}
	return out
}
