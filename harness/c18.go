package main

import (
	"bytes"
	"fmt"

	"github.com/lxzan/gws"
)

func init() { runners["C18"] = runC18 }

// C18: lengths x offsets x keys inside a guard-padded backing array.
func runC18(c *Ctx) error {
	maxLen := 209
	if !c.quick() {
		maxLen = 1100
	}
	c.Sum.Rule = "MaskXOR on arr[off:off+len] for every len 0..maxLen, offsets 0..8 (rotating), keys {0, ff.., random}; non-trivial = len>0 and key!=0; distinct by (key,arr,off,len)"
	keys := [][]byte{{0, 0, 0, 0}, {255, 255, 255, 255}, {1, 2, 3, 4}}
	lens := []int{}
	for n := 0; n <= maxLen; n++ {
		lens = append(lens, n)
	}
	// large buffers: every power of two up to 1 MiB (4 MiB thorough) +- small residues, plus random sizes
	top := 16
	if !c.quick() {
		top = 22
	}
	for e := 9; e <= top; e++ {
		lens = append(lens, 1<<e-1-c.Rng.Intn(7), 1<<e, 1<<e+1+c.Rng.Intn(70))
	}
	for i := 0; i < 6; i++ {
		lens = append(lens, 1000+c.Rng.Intn(60000))
	}
	// above 1 MiB with every residue mod 8 (a buffer that a library might split into halves or lanes)
	for r := 0; r < 8; r++ {
		lens = append(lens, 1<<20+8*c.Rng.Intn(1000)+r)
	}
	for _, n := range lens {
		offs := []int{n % 9, (n*5 + 3) % 9}
		if n > maxLen {
			offs = []int{c.Rng.Intn(9)}
		}
		if !c.quick() && n <= maxLen {
			offs = []int{0, 1, 2, 3, 4, 5, 6, 7, 8}
		}
		for _, off := range offs {
			ks := append([][]byte{}, keys...)
			ks = append(ks, randBytes(c.Rng, 4))
			if n > maxLen {
				ks = ks[2:]
			}
			for _, key := range ks {
				guard := 9
				arr := randBytes(c.Rng, off+n+guard)
				before := append([]byte(nil), arr...)
				gws.VerifMaskXOR(arr[off:off+n], key)
				// the property's own oracle, byte by byte, on the implementation's output
				for i := range arr {
					want := before[i]
					if i >= off && i < off+n {
						want ^= key[(i-off)%4]
					}
					if arr[i] != want {
						c.oracleFail(fmt.Sprintf("byte %d of len=%d off=%d key=%x is %02x, RFC transform gives %02x", i-off, n, off, key, arr[i], want),
							"mask-byte", map[string]any{"key": key, "off": off, "len": n, "before": before, "after": append([]byte(nil), arr...)})
						break
					}
				}
				// twice restores
				twice := append([]byte(nil), arr...)
				gws.VerifMaskXOR(twice[off:off+n], key)
				if !bytes.Equal(twice, before) {
					c.oracleFail("masking twice does not restore the input", "mask-involution", map[string]any{"key": key, "off": off, "len": n, "before": before})
				}
				tag := fmt.Sprintf("key=%x off=%d len=%d", key, off, n)
				if n <= 1<<19 { // larger buffers: oracle only
					c.addCase("C18", VL{VB(key), VB(before), VN(off), VN(n), VB(append([]byte(nil), arr...))}, tag)
				}
				c.count(tag+fmt.Sprintf("%x", before), n > 0 && !bytes.Equal(key, []byte{0, 0, 0, 0}), fmt.Sprintf("len%%64=%d", n%64/16*16), fmt.Sprintf("lenclass=%s", lenClass(n)))
				if n == 70 && off == 7 {
					c.sample(map[string]any{"key": fmt.Sprintf("%x", key), "off": off, "len": n, "before": fmt.Sprintf("%x", before), "after": fmt.Sprintf("%x", arr)})
				}
			}
		}
	}
	headerLengthSweep(c) // the masked bit, the length forms and the key position of every client header
	return c18Conn(c)
}

// the two application sites: every client-sent payload unmasks to the application payload (all write APIs, control
// frames included), and every masked frame a server receives reaches the application unmasked
func c18Conn(c *Ctx) error {
	lens := []int{0, 1, 3, 4, 5, 7, 8, 9, 63, 64, 65, 71, 72, 125, 126, 127, 128, 1000, 65535, 65536, 70001}
	// (a) client send
	cs := connSpec{Server: false}
	conn, tap, err := cs.open(&recHandler{})
	if err != nil {
		return err
	}
	for li, n := range lens {
		for _, api := range []string{"message", "writev", "async", "writevasync", "file", "ping", "pong", "broadcast"} {
			if (api == "ping" || api == "pong") && n > 125 {
				continue
			}
			p := randBytes(c.Rng, n)
			op := sendOp{API: api, Opcode: 2, Slices: splitSlices(c, p, 1+li%3)}
			switch api {
			case "file":
				op.Reader = newChunkReader(splitEven(p, 1+li%3), "sep")
			case "ping":
				op.Opcode = 9
			case "pong":
				op.Opcode = 10
			}
			obs := doSend(conn, tap, op)
			tag := fmt.Sprintf("client send api=%s len=%d", api, n)
			fs, rest, perr := parseFrames(obs.Wire)
			var got []byte
			allMasked := true
			for _, f := range fs {
				got = append(got, f.Payload...)
				allMasked = allMasked && f.Masked
			}
			replay := map[string]any{"tag": tag, "wire_prefix": fmt.Sprintf("%x", head(obs.Wire, 64)), "payload_prefix": fmt.Sprintf("%x", head(p, 32))}
			switch {
			case obs.Res != 0 && obs.Res != 100 || perr != nil || len(rest) != 0 || len(fs) == 0:
				c.oracleFail(fmt.Sprintf("client send failed or wrote no whole frame (result %d) [%s]", obs.Res, tag), "client-send", replay)
			case !allMasked:
				c.oracleFail("a client-sent frame is not masked ["+tag+"]", "client-unmasked-frame", replay)
			case !bytes.Equal(got, p):
				c.oracleFail("the client-sent payload on the wire does not unmask to the application payload ["+tag+"]", "client-mask-payload", replay)
			}
			c.count(tag, n > 0, "site=client-send", fmt.Sprintf("lenclass=%s", lenClass(n)))
		}
	}
	// (b) masked receive on a server: data (whole and fragmented), ping, pong, close reason
	for li, n := range lens {
		key := [4]byte{byte(17 * li), byte(3 + li), 0xa5, byte(c.Rng.Intn(256))}
		p := randBytes(c.Rng, n)
		var stream []byte
		var want []evRec
		stream = append(stream, encodeFrame(frameSpec{Fin: true, Opcode: 2, Masked: true, Key: key, Payload: p, DeclLen: -1})...)
		want = append(want, evRec{Kind: "msg", Opcode: 2, Payload: p})
		if n >= 2 {
			stream = append(stream, encodeFrame(frameSpec{Fin: false, Opcode: 2, Masked: true, Key: key, Payload: p[:n/2], DeclLen: -1})...)
			stream = append(stream, encodeFrame(frameSpec{Fin: true, Opcode: 0, Masked: true, Key: [4]byte{key[3], key[2], key[1], key[0]}, Payload: p[n/2:], DeclLen: -1})...)
			want = append(want, evRec{Kind: "msg", Opcode: 2, Payload: p})
		}
		if n <= 125 {
			stream = append(stream, encodeFrame(frameSpec{Fin: true, Opcode: 9, Masked: true, Key: key, Payload: p, DeclLen: -1})...)
			stream = append(stream, encodeFrame(frameSpec{Fin: true, Opcode: 10, Masked: true, Key: key, Payload: p, DeclLen: -1})...)
			want = append(want, evRec{Kind: "ping", Opcode: 9, Payload: p}, evRec{Kind: "pong", Opcode: 10, Payload: p})
		}
		reason := []byte("masked close reason")
		stream = append(stream, encodeFrame(frameSpec{Fin: true, Opcode: 8, Masked: true, Key: key, Payload: append([]byte{0x0f, 0xa1}, reason...), DeclLen: -1})...)
		obs, _, _, err := runInbound(connSpec{Server: true, RLimit: 1 << 20}, cutChunks(c, stream, li%3))
		if err != nil {
			return err
		}
		tag := fmt.Sprintf("masked receive len=%d key=%x", n, key)
		replay := map[string]any{"tag": tag, "stream_prefix": fmt.Sprintf("%x", head(stream, 64))}
		if !sameEvents(want, obs.Events) {
			what := fmt.Sprintf("%d callbacks, expected %d", len(obs.Events), len(want))
			for i := range want {
				if i < len(obs.Events) && !bytes.Equal(want[i].Payload, obs.Events[i].Payload) {
					what = fmt.Sprintf("callback %d (%s) received %x..., the application payload is %x...", i, want[i].Kind, head(obs.Events[i].Payload, 8), head(want[i].Payload, 8))
					break
				}
			}
			c.oracleFail("masked frames received by a server: "+what+" ["+tag+"]", "server-unmask", replay)
		} else if obs.Kind != 2 || obs.A != 4001 || !bytes.Equal(obs.B, reason) {
			c.oracleFail(fmt.Sprintf("masked Close frame: reported code %d reason %q [%s]", obs.A, obs.B, tag), "server-unmask-close", replay)
		}
		c.count(tag, n > 0, "site=server-receive", fmt.Sprintf("lenclass=%s", lenClass(n)))
	}
	// (c) a masked frame shared by several client connections (Broadcaster) while their transport writes overlap
	return sharedBroadcastFrameScenario(c)
}

func lenClass(n int) string {
	switch {
	case n == 0:
		return "0"
	case n < 8:
		return "1-7"
	case n < 64:
		return "8-63"
	case n < 128:
		return "64-127"
	case n < 4096:
		return "128-4095"
	case n < 65536:
		return "4096-65535"
	default:
		return ">=65536"
	}
}
