package main

import (
	"bytes"
	"fmt"

	"github.com/lxzan/gws"
)

func init() { runners["C18"] = runC18 }

// C18: lengths x offsets x keys inside a guard-padded backing array.
func runC18(c *Ctx) error {
	maxLen := 209
	if !c.quick() {
		maxLen = 1100
	}
	c.Sum.Rule = "MaskXOR on arr[off:off+len] for every len 0..maxLen, offsets 0..8 (rotating), keys {0, ff.., random}; non-trivial = len>0 and key!=0; distinct by (key,arr,off,len)"
	keys := [][]byte{{0, 0, 0, 0}, {255, 255, 255, 255}, {1, 2, 3, 4}}
	lens := []int{}
	for n := 0; n <= maxLen; n++ {
		lens = append(lens, n)
	}
	// large buffers: every power of two up to 1 MiB (4 MiB thorough) +- small residues, plus random sizes
	top := 16
	if !c.quick() {
		top = 22
	}
	for e := 9; e <= top; e++ {
		lens = append(lens, 1<<e-1-c.Rng.Intn(7), 1<<e, 1<<e+1+c.Rng.Intn(70))
	}
	for i := 0; i < 6; i++ {
		lens = append(lens, 1000+c.Rng.Intn(60000))
	}
	for _, n := range lens {
		offs := []int{n % 9, (n*5 + 3) % 9}
		if n > maxLen {
			offs = []int{c.Rng.Intn(9)}
		}
		if !c.quick() && n <= maxLen {
			offs = []int{0, 1, 2, 3, 4, 5, 6, 7, 8}
		}
		for _, off := range offs {
			ks := append([][]byte{}, keys...)
			ks = append(ks, randBytes(c.Rng, 4))
			if n > maxLen {
				ks = ks[2:]
			}
			for _, key := range ks {
				guard := 9
				arr := randBytes(c.Rng, off+n+guard)
				before := append([]byte(nil), arr...)
				gws.VerifMaskXOR(arr[off:off+n], key)
				// the property's own oracle, byte by byte, on the implementation's output
				for i := range arr {
					want := before[i]
					if i >= off && i < off+n {
						want ^= key[(i-off)%4]
					}
					if arr[i] != want {
						c.oracleFail(fmt.Sprintf("byte %d of len=%d off=%d key=%x is %02x, RFC transform gives %02x", i-off, n, off, key, arr[i], want),
							"mask-byte", map[string]any{"key": key, "off": off, "len": n, "before": before, "after": append([]byte(nil), arr...)})
						break
					}
				}
				// twice restores
				twice := append([]byte(nil), arr...)
				gws.VerifMaskXOR(twice[off:off+n], key)
				if !bytes.Equal(twice, before) {
					c.oracleFail("masking twice does not restore the input", "mask-involution", map[string]any{"key": key, "off": off, "len": n, "before": before})
				}
				tag := fmt.Sprintf("key=%x off=%d len=%d", key, off, n)
				c.addCase("C18", VL{VB(key), VB(before), VN(off), VN(n), VB(append([]byte(nil), arr...))}, tag)
				c.count(tag+fmt.Sprintf("%x", before), n > 0 && !bytes.Equal(key, []byte{0, 0, 0, 0}), fmt.Sprintf("len%%64=%d", n%64/16*16), fmt.Sprintf("lenclass=%s", lenClass(n)))
				if n == 70 && off == 7 {
					c.sample(map[string]any{"key": fmt.Sprintf("%x", key), "off": off, "len": n, "before": fmt.Sprintf("%x", before), "after": fmt.Sprintf("%x", arr)})
				}
			}
		}
	}
	return nil
}

func lenClass(n int) string {
	switch {
	case n == 0:
		return "0"
	case n < 8:
		return "1-7"
	case n < 64:
		return "8-63"
	case n < 128:
		return "64-127"
	case n < 4096:
		return "128-4095"
	case n < 65536:
		return "4096-65535"
	default:
		return ">=65536"
	}
}
