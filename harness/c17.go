package main

import (
	"bytes"
	"encoding/hex"
	"fmt"
	"math/rand"

	"github.com/lxzan/gws"
)

func init() { runners["C17"] = runC17 }

// c17Write performs one Write on the real window; a runtime panic is returned, not propagated.
func c17Write(w *gws.VerifWindow, p []byte) (pan any) {
	defer func() { pan = recover() }()
	w.Write(p)
	return nil
}

// the property's own oracle: the last min(total, cap) bytes of everything written
func c17Suffix(hist []byte, cap int) []byte {
	if len(hist) > cap {
		return hist[len(hist)-cap:]
	}
	return hist
}

// which branch of slideWindow.Write a write of n bytes takes at fill level fill (for the evidence only)
func c17Branch(cap, fill, n int) string {
	switch {
	case n == 0:
		return "empty"
	case n+fill <= cap:
		if n+fill == cap {
			return "append-exact"
		}
		return "append"
	}
	s := "full+"
	if fill < cap {
		s = "fill+"
		n -= cap - fill
	}
	switch {
	case n > cap:
		return s + "overwrite"
	case n == cap:
		return s + "overwrite-exact"
	default:
		return s + "shift"
	}
}

func c17Tail(b []byte) string {
	if len(b) > 48 {
		return fmt.Sprintf("...(%d bytes)%s", len(b), hex.EncodeToString(b[len(b)-48:]))
	}
	return hex.EncodeToString(b)
}

type c17Run struct {
	c     *Ctx
	bits  int
	cap   int
	w     *gws.VerifWindow
	hist  []byte
	lens  []int
	seed  int64
	fails int
}

func (r *c17Run) replay(step int, got, want []byte) map[string]any {
	return map[string]any{"bits": r.bits, "capacity": r.cap, "chunk_lengths": append([]int(nil), r.lens...), "content_seed": r.seed,
		"failing_write_index": step, "window_got": c17Tail(got), "window_want": c17Tail(want)}
}

// write drives one Write and evaluates the oracle; returns (dict before, dict after, ok)
func (r *c17Run) write(p []byte, needBefore bool) (before, after []byte, ok bool) {
	if needBefore {
		before = r.w.Dict()
	}
	r.lens = append(r.lens, len(p))
	step := len(r.lens) - 1
	// the writer passes its own buffer and reuses it as soon as Write has returned: the window must hold a copy
	q := append([]byte(nil), p...)
	pan := c17Write(r.w, q)
	for i := range q {
		q[i] ^= 0xff
	}
	r.hist = append(r.hist, p...)
	want := c17Suffix(r.hist, r.cap)
	if r.bits < 0 {
		want = nil
	}
	if pan != nil {
		r.fails++
		r.c.oracleFail(fmt.Sprintf("Write panicked (%v): bits=%d chunk lengths %v", pan, r.bits, r.lens), "window-panic", r.replay(step, nil, want))
		return before, nil, false
	}
	after = r.w.Dict()
	if !bytes.Equal(after, want) {
		r.fails++
		r.c.oracleFail(fmt.Sprintf("window is not the suffix of what was written: bits=%d (capacity %d), chunk lengths %v: window %s, last %d bytes written %s",
			r.bits, r.cap, r.lens, c17Tail(after), len(want), c17Tail(want)), "window-not-suffix", r.replay(step, after, want))
		return before, after, false
	}
	if len(after) > r.cap {
		r.fails++
		r.c.oracleFail(fmt.Sprintf("window longer than its capacity: %d > %d", len(after), r.cap), "window-too-long", r.replay(step, after, want))
		return before, after, false
	}
	return before, after, true
}

func c17New(c *Ctx, bits int, seed int64) *c17Run {
	r := &c17Run{c: c, bits: bits, w: gws.NewVerifWindow(bits), seed: seed}
	if bits >= 0 {
		r.cap = 1 << bits
	}
	return r
}

func vbs(bs [][]byte) VL {
	l := VL{}
	for _, b := range bs {
		l = append(l, VB(b))
	}
	return l
}

func runC17(c *Ctx) error {
	depth, modelDepth := 4, 4
	if !c.quick() {
		depth = 6
	}
	c.Sum.Rule = fmt.Sprintf("slideWindow via NewVerifWindow: (a) every sequence of %d chunks with lengths 0..2*cap+1 (distinct byte values) for cap in {1,2,4,8}, window compared with the suffix oracle after every write; "+
		"one model step case per distinct prefix up to depth %d (deeper for small caps), whole-history model cases for a sample; (b) random long histories for bits 8..15 with chunk lengths at free-1/free/free+1/cap-1/cap/cap+1/free+cap(+-1)/2cap+3/0/2^k(+-1)/cap+2^k(+-1)/random; "+
		"(c) disabled (zero-value) window. non-trivial = non-empty chunk; distinct by (capacity, window before, chunk)", depth, modelDepth)

	// ---- capacity: exactly 2^bits for every window size that can be negotiated (and the sizes below)
	for bits := 0; bits <= 15; bits++ {
		w := gws.NewVerifWindow(bits)
		if w.Size() != 1<<uint(bits) {
			c.oracleFail(fmt.Sprintf("a window of %d bits has capacity %d, want %d", bits, w.Size(), 1<<uint(bits)), "window-capacity", map[string]any{"bits": bits, "capacity": w.Size()})
		}
		// and it really holds that much: after 2^bits + 5 distinct bytes the window is the last 2^bits of them
		data := make([]byte, 1<<uint(bits)+5)
		for i := range data {
			data[i] = byte(i*7 + i>>8)
		}
		_, _ = w.Write(data)
		if !bytes.Equal(w.Dict(), data[5:]) {
			c.oracleFail(fmt.Sprintf("a window of %d bits holds %d bytes after %d were written, want the last %d", bits, len(w.Dict()), len(data), 1<<uint(bits)), "window-capacity", map[string]any{"bits": bits})
		}
		c.count(fmt.Sprintf("capacity bits=%d", bits), true, "kind=capacity")
	}
	// ---- (c) disabled window: stays empty whatever is written
	{
		r := c17New(c, -1, 0)
		var chunks, dicts [][]byte
		for _, n := range []int{0, 1, 7, 300, 0, 70000, 2} {
			p := randBytes(c.Rng, n)
			_, after, ok := r.write(p, false)
			if !ok {
				break
			}
			if r.w.Size() != 0 {
				c.oracleFail("disabled window reports a capacity", "window-disabled-size", map[string]any{"size": r.w.Size()})
			}
			c.addCase("C17step", VL{VN(0), VN(0), VB(nil), VB(p), VB(after), VN(r.w.Size())}, fmt.Sprintf("disabled len=%d", n))
			c.count(fmt.Sprintf("disabled|%d", n), n > 0, "branch=disabled")
			if n < 1000 {
				chunks, dicts = append(chunks, p), append(dicts, after)
			}
		}
		c.addCase("C17hist", VL{VZ(-1), vbs(chunks), vbs(dicts)}, "disabled history")
	}

	// ---- (a) exhaustive small capacities
	for bits := 0; bits <= 3; bits++ {
		cap := 1 << bits
		L := 2*cap + 1
		md := modelDepth
		if !c.quick() {
			switch cap {
			case 1, 2:
				md = 6
			case 4:
				md = 5
			}
		}
		idx := make([]int, depth)
		seqNo := 0
		histEvery := map[int]int{1: 1, 2: 1, 4: 7, 8: 97}[cap]
		if !c.quick() {
			histEvery = map[int]int{1: 1, 2: 5, 4: 211, 8: 9973}[cap]
		}
		for {
			r := c17New(c, bits, 0)
			wantHist := seqNo%histEvery == 0
			var chunks, dicts [][]byte
			next := byte(1)
			for j := 0; j < depth; j++ {
				p := make([]byte, idx[j])
				for k := range p {
					p[k] = next
					next++
				}
				first := true // first visit of the prefix idx[0..j] in odometer order
				for k := j + 1; k < depth; k++ {
					if idx[k] != 0 {
						first = false
						break
					}
				}
				emit := first && j < md
				before, after, ok := r.write(p, first)
				if !ok {
					break
				}
				if r.w.Size() != cap {
					c.oracleFail("capacity changed", "window-size-changed", map[string]any{"bits": bits, "size": r.w.Size()})
				}
				if emit {
					tag := fmt.Sprintf("cap=%d lens=%v", cap, idx[:j+1])
					c.addCase("C17step", VL{VN(cap), VN(1), VB(before), VB(p), VB(after), VN(r.w.Size())}, tag)
				}
				if first {
					c.count(fmt.Sprintf("%d|%x|%x", cap, before, p), len(p) > 0, "branch="+c17Branch(cap, len(r.hist)-len(p), len(p)), fmt.Sprintf("cap=%d", cap))
					if cap == 4 && j == 2 && idx[0] == 3 && idx[1] == 2 && idx[2] == 3 {
						c.sample(map[string]any{"capacity": cap, "chunk_lengths": append([]int(nil), idx[:3]...), "window_before": hex.EncodeToString(before), "chunk": hex.EncodeToString(p), "window_after": hex.EncodeToString(after)})
					}
				}
				if wantHist {
					chunks, dicts = append(chunks, p), append(dicts, after)
				}
			}
			if wantHist && len(chunks) == depth {
				c.addCase("C17hist", VL{VZ(int64(bits)), vbs(chunks), vbs(dicts)}, fmt.Sprintf("hist cap=%d lens=%v", cap, idx))
			}
			if r.fails > 0 && len(c.Sum.OracleFails) >= 20 {
				break
			}
			seqNo++
			// odometer, last position fastest
			k := depth - 1
			for k >= 0 {
				idx[k]++
				if idx[k] <= L {
					break
				}
				idx[k] = 0
				k--
			}
			if k < 0 {
				break
			}
		}
	}

	// ---- (b) random long histories, bits 8..15
	modelHist, oracleHist, writes := 2, 60, 20
	if !c.quick() {
		modelHist, oracleHist, writes = 6, 1500, 40
	}
	for bits := 8; bits <= 15; bits++ {
		cap := 1 << bits
		for h := 0; h < modelHist+oracleHist; h++ {
			withModel := h < modelHist
			hseed := c.Rng.Int63()
			content := rand.New(rand.NewSource(hseed))
			r := c17New(c, bits, hseed)
			var chunks, dicts [][]byte
			for j := 0; j < writes; j++ {
				fill := len(r.hist)
				if fill > cap {
					fill = cap
				}
				free := cap - fill
				var n int
				switch c.Rng.Intn(18) {
				case 0:
					n = free - 1
				case 1:
					n = free
				case 2:
					n = free + 1
				case 3:
					n = cap - 1
				case 4:
					n = cap
				case 5:
					n = cap + 1
				case 6:
					n = 2*cap + 3
				case 7:
					n = 0
				case 8:
					n = free + cap - 1
				case 9:
					n = free + cap
				case 10:
					n = free + cap + 1
				case 11:
					n = 1 + c.Rng.Intn(16)
				case 12:
					n = c.Rng.Intn(cap/4 + 1)
				case 13:
					n = c.Rng.Intn(cap + 1)
				case 14:
					n = cap + c.Rng.Intn(cap+4)
				case 15: // lengths around powers of two, independent of the capacity
					n = 1<<c.Rng.Intn(17) + c.Rng.Intn(3) - 1
				case 16: // ... and that far beyond the capacity / the free space
					n = cap + 1<<c.Rng.Intn(bits+2) + c.Rng.Intn(3) - 1
				default:
					n = free + c.Rng.Intn(cap) // fill, then shift by a random amount
				}
				if n < 0 {
					n = 0
				}
				p := make([]byte, n)
				content.Read(p)
				before, after, ok := r.write(p, withModel)
				if !ok {
					break
				}
				br := c17Branch(cap, fill, n)
				if withModel {
					c.addCase("C17step", VL{VN(cap), VN(1), VB(before), VB(p), VB(after), VN(r.w.Size())}, fmt.Sprintf("bits=%d fill=%d len=%d %s", bits, fill, n, br))
					if bits <= 10 {
						chunks, dicts = append(chunks, p), append(dicts, after)
					}
				}
				c.count(fmt.Sprintf("%d|%d|%d|%d", bits, hseed, j, n), n > 0, "branch="+br, fmt.Sprintf("bits=%d", bits))
			}
			if withModel && bits <= 10 && len(chunks) == writes {
				c.addCase("C17hist", VL{VZ(int64(bits)), vbs(chunks), vbs(dicts)}, fmt.Sprintf("hist bits=%d seed=%d", bits, hseed))
			}
			if r.fails > 0 && len(c.Sum.OracleFails) >= 30 {
				break
			}
		}
	}
	// ---- (d) the window of a NEW connection of a long-lived server: zero bytes written, so it holds nothing
	freshWindowScenario(c, 12)
	return nil
}
