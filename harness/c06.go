package main

import (
	"errors"
	"fmt"
	"net"
	"os"
	"strings"
	"sync"
	"time"

	"github.com/lxzan/gws"
)

func init() { runners["C06"] = runC06 }

func runC06(c *Ctx) error {
	c.Sum.Rule = "(a) received Close frames: status codes (all 65536 in the thorough tier; every boundary of the statement's table +-2 and every 13th code in the quick tier) x body variants {code only, valid reason, invalid UTF-8 reason, 1-byte body, empty} x both roles x UTF-8 checking on/off: reported code/reason, reply frame, transport closed; (b) local closes: 14 codes x reason lengths 0..200: wire body, and every write API afterwards is rejected without touching the wire; (c) schedules: writers of every API parked one after another inside a gate-controlled transport racing a local close / a peer close, every release order: at most one Close frame and no byte after it; non-trivial = all; distinct by input"
	// ---- (a)
	var codes []int
	seen := map[int]bool{}
	add := func(x int) {
		if x >= 0 && x < 65536 && !seen[x] {
			seen[x] = true
			codes = append(codes, x)
		}
	}
	for _, b := range []int{0, 1, 255, 256, 999, 1000, 1003, 1004, 1006, 1007, 1011, 1014, 1015, 1016, 2999, 3000, 4999, 5000, 32767, 32768, 65535} {
		for d := -2; d <= 2; d++ {
			add(b + d)
		}
	}
	if c.quick() {
		for x := 0; x < 65536; x += 13 {
			add(x)
		}
	} else {
		for x := 0; x < 65536; x++ {
			add(x)
		}
	}
	variants := 4
	for ci, code := range codes {
		for v := 0; v < variants; v++ {
			if c.quick() && len(codes) > 200 && ci >= 110 && (ci+v)%variants != 0 {
				continue // quick: the swept codes get one rotating variant, the boundary codes all of them
			}
			server := (ci+v)%2 == 0
			utf8on := (ci/2+v)%3 != 0
			body := []byte{byte(code >> 8), byte(code)}
			switch v {
			case 1:
				body = append(body, []byte("bye ✓")...)
			case 2:
				body = append(body, 'x', 0xc3, 0x28)
			case 3:
				body = append(body, make([]byte, 123)...)
			}
			spec := connSpec{Server: server, Utf8: utf8on, RLimit: 1000}
			// the Close frame arrives on an idle connection, or while a fragmented message of the peer is still open (control
			// frames may come between fragments, RFC 6455 5.4), or behind a ping
			var pre []byte
			switch (ci + 2*v) % 5 {
			case 1:
				pre = dataFrame(2, false, server, []byte("first fragment of a message that will never be finished"))
			case 2:
				pre = append(dataFrame(1, false, server, []byte("text ")), encodeFrame(frameSpec{Opcode: 0, Masked: server, Key: [4]byte{7, 7, 7, 7}, Payload: []byte("continued"), DeclLen: -1})...)
			case 3:
				pre = encodeFrame(frameSpec{Fin: true, Opcode: 9, Masked: server, Key: [4]byte{8, 8, 8, 8}, Payload: []byte("ping first"), DeclLen: -1})
			}
			stream := append(pre, encodeFrame(frameSpec{Fin: true, Opcode: 8, Masked: server, Key: [4]byte{9, 9, 9, 9}, Payload: body, DeclLen: -1})...)
			stream = append(stream, dataFrame(2, true, server, []byte("after close"))...)
			if err := inboundOne(c, spec, stream, 0, fmt.Sprintf("close code=%d variant=%d server=%v utf8=%v prefix=%d", code, v, server, utf8on, (ci+2*v)%5), "C06"); err != nil {
				return err
			}
		}
	}
	for _, server := range []bool{true, false} {
		for _, body := range [][]byte{{}, {0x03}, {0xff}} {
			spec := connSpec{Server: server, Utf8: true, RLimit: 1000}
			stream := encodeFrame(frameSpec{Fin: true, Opcode: 8, Masked: server, Key: [4]byte{9, 9, 9, 9}, Payload: body, DeclLen: -1})
			if err := inboundOne(c, spec, stream, 1, fmt.Sprintf("close short body=%x server=%v", body, server), "C06"); err != nil {
				return err
			}
		}
	}
	// ---- (a2) the reply to a peer's Close cannot be written (the peer is gone, a write deadline expired): the transport
	// is closed all the same and the application is told once
	for _, server := range []bool{true, false} {
		for _, fault := range []string{"write-error", "dead-link"} {
			h := &recHandler{}
			conn, tap, err := connSpec{Server: server}.open(h)
			if err != nil {
				return err
			}
			tap.mu.Lock()
			if fault == "write-error" {
				tap.failWrite, tap.writeErr = tap.nWrite, os.ErrDeadlineExceeded
			} else {
				tap.writeDeadFrom, tap.writeErr = tap.nWrite, &net.OpError{Op: "write", Net: "tcp", Err: errors.New("broken pipe")}
			}
			tap.mu.Unlock()
			tap.feed(encodeFrame(frameSpec{Fin: true, Opcode: 8, Masked: server, Key: [4]byte{9, 9, 9, 9}, Payload: []byte{0x03, 0xe8, 'b', 'y', 'e'}, DeclLen: -1}))
			// the stream does NOT end: only the write side is broken
			tag := fmt.Sprintf("reply to a peer Close cannot be written server=%v fault=%s", server, fault)
			returned := runWithTimeout(5*time.Second, conn.ReadLoop)
			closed, ncl := tap.isClosed()
			closes := 0
			for _, e := range h.events() {
				if e.Kind == "close" {
					closes++
				}
			}
			if !returned || !closed || ncl != 1 || closes != 1 {
				c.oracleFail(fmt.Sprintf("after a peer Close whose reply could not be written: read loop returned=%v, transport closed=%v (%d Close calls), OnClose x%d [%s]", returned, closed, ncl, closes, tag),
					"peer-close-transport", map[string]any{"tag": tag})
			}
			if !closed {
				_ = tap.Close()
			}
			c.count(tag, true, "kind=peer-close-reply-fault")
		}
	}
	// ---- (b) local closes
	for _, server := range []bool{true, false} {
		for _, code := range []int{0, 1, 999, 1000, 1001, 1005, 1006, 1014, 2999, 3000, 4999, 5000, 40000, 65535} {
			for rl := 0; rl <= 200; rl++ {
				if c.quick() && rl > 4 && rl < 118 && rl%9 != 0 {
					continue
				}
				if c.quick() && rl > 130 && rl%23 != 0 {
					continue
				}
				reason := make([]byte, rl)
				for i := range reason {
					reason[i] = byte('a' + i%26)
				}
				// the cut is a cut of BYTES: multi-byte characters (one may straddle byte 123) and bytes that are not
				// UTF-8 at all stay what they are
				switch (rl + code) % 3 {
				case 1:
					reason = []byte(strings.Repeat("\u00e9\u4e2d", rl))[:rl]
				case 2:
					if rl > 5 {
						reason[5] = 0xff
					}
				}
				spec := connSpec{Server: server, Utf8: true, WLimit: 65536}
				conn, tap, err := spec.open(&recHandler{})
				if err != nil {
					return err
				}
				werr := conn.WriteClose(uint16(code), reason)
				fs, rest, perr := parseFrames(tap.written())
				tag := fmt.Sprintf("local close server=%v code=%d reasonlen=%d", server, code, rl)
				replay := map[string]any{"server": server, "code": code, "reason_len": rl, "wire": fmt.Sprintf("%x", head(tap.written(), 140))}
				want := append([]byte{byte(maxInt(code, 1000) >> 8), byte(maxInt(code, 1000))}, head(reason, 123)...)
				closed, _ := tap.isClosed()
				switch {
				case werr != nil || perr != nil || len(rest) != 0 || len(fs) != 1 || fs[0].Opcode != 8:
					c.oracleFail(fmt.Sprintf("local close did not put exactly one Close frame on the wire (err=%v, frames=%d) [%s]", werr, len(fs), tag), "local-close-frame", replay)
				case string(fs[0].Payload) != string(want) || wfOutbound(fs[0], server) != "":
					c.oracleFail(fmt.Sprintf("local close body %x, want status max(code,1000) and the reason cut to 123 bytes [%s]", head(fs[0].Payload, 8), tag), "local-close-body", replay)
				case !closed:
					c.oracleFail("transport left open after WriteClose ["+tag+"]", "local-close-transport", replay)
				}
				if len(fs) == 1 {
					c.addCase("C06local", VL{VN(code), VB(reason), VB(fs[0].Payload)}, tag)
				}
				// every later write is rejected with the closed error and touches nothing
				before := tap.numWrites()
				for _, api := range []string{"message", "writev", "async", "file", "ping", "pong", "string", "writevasync"} {
					op := sendOp{API: api, Opcode: 2, Slices: [][]byte{[]byte("late")}}
					if api == "file" {
						op.Reader = newChunkReader([][]byte{[]byte("late")}, "sep")
					}
					if api == "ping" {
						op.Opcode = 9
					}
					if api == "pong" {
						op.Opcode = 10
					}
					if api == "string" {
						op.Opcode = 1
					}
					obs := doSend(conn, tap, op)
					if obs.Res != 1 || tap.numWrites() != before {
						c.oracleFail(fmt.Sprintf("%s after close returned %d (%s) and the transport saw %d more writes [%s]", api, obs.Res, obs.ErrText, tap.numWrites()-before, tag), "write-after-close", replay)
					}
				}
				// ... also when the content is something an open connection would refuse (text that is not UTF-8, a payload
				// above the write limit): the connection being closed is what the caller must be told
				for _, lp := range []struct {
					api string
					op  int
					pl  []byte
				}{
					{"message", 1, []byte{'a', 0xff, 'b'}}, {"string", 1, []byte{0xc3}}, {"writev", 1, []byte{0xe4, 0xb8}}, {"async", 1, []byte{0xff}},
					{"message", 2, make([]byte, 70000)}, {"writev", 2, make([]byte, 70000)}, {"writevasync", 2, make([]byte, 70000)},
				} {
					obs := doSend(conn, tap, sendOp{API: lp.api, Opcode: lp.op, Slices: [][]byte{lp.pl}})
					if obs.Res != 1 || tap.numWrites() != before {
						c.oracleFail(fmt.Sprintf("%s with content an open connection would refuse (%d bytes, opcode %d), after close, returned %d (%s), want the closed-connection error; the transport saw %d more writes [%s]", lp.api, len(lp.pl), lp.op, obs.Res, obs.ErrText, tap.numWrites()-before, tag), "write-after-close", replay)
					}
				}
				if e2 := conn.WriteClose(1000, nil); e2 == nil {
					c.oracleFail("second WriteClose succeeded ["+tag+"]", "double-close", replay)
				}
				if _, n := tap.isClosed(); n != 1 {
					c.oracleFail(fmt.Sprintf("transport closed %d times [%s]", n, tag), "transport-closed-twice", replay)
				}
				c.count(tag, true, "kind=local", fmt.Sprintf("reason>123=%v", rl > 123))
			}
		}
	}
	// ---- (b2) closes caused by a transport read error: body = status 1000 followed by the error text, cut to 125 bytes
	for _, server := range []bool{true, false} {
		for tl := 0; tl <= 300; tl++ {
			if c.quick() && tl > 4 && (tl < 118 || tl > 130) && tl%17 != 0 {
				continue
			}
			text := make([]byte, tl)
			for i := range text {
				text[i] = byte('A' + i%26)
			}
			spec := connSpec{Server: server, Utf8: true, PMD: tl%2 == 0}
			h := &recHandler{}
			conn, tap, err := spec.open(h)
			if err != nil {
				return err
			}
			tap.feed(dataFrame(1, true, server, []byte("hello")))
			tap.mu.Lock()
			tap.failRead, tap.failReadErr = tap.nRead+tl%2, errors.New(string(text))
			tap.mu.Unlock()
			tag := fmt.Sprintf("error close server=%v textlen=%d", server, tl)
			replay := map[string]any{"server": server, "error_text_len": tl}
			if !runWithTimeout(10*time.Second, conn.ReadLoop) {
				c.oracleFail("read loop did not return after a transport read error ["+tag+"]", "error-close-hang", replay)
				continue
			}
			fs, rest, perr := parseFrames(tap.written())
			replay["wire"] = fmt.Sprintf("%x", head(tap.written(), 140))
			want := head(append([]byte{0x03, 0xe8}, text...), 125)
			closes := 0
			for _, e := range h.events() {
				if e.Kind == "close" {
					closes++
				}
			}
			closed, _ := tap.isClosed()
			switch {
			case perr != nil || len(rest) != 0 || len(fs) != 1 || fs[0].Opcode != 8:
				c.oracleFail(fmt.Sprintf("a transport read error did not put exactly one Close frame on the wire (frames=%d, undecodable=%v, trailing=%d) [%s]", len(fs), perr, len(rest), tag), "error-close-frame", replay)
			case wfOutbound(fs[0], server) != "":
				c.oracleFail("Close frame after a transport read error: "+wfOutbound(fs[0], server)+" ["+tag+"]", "error-close-frame", replay)
			case string(fs[0].Payload) != string(want):
				c.oracleFail(fmt.Sprintf("Close body after a transport read error is %x..., want status 1000 and the error text cut to 125 bytes in all [%s]", head(fs[0].Payload, 8), tag), "error-close-body", replay)
			case closes != 1 || !closed:
				c.oracleFail(fmt.Sprintf("after a transport read error OnClose ran %d times, transport closed=%v [%s]", closes, closed, tag), "error-close-lifecycle", replay)
			}
			if len(fs) == 1 {
				c.addCase("C06err", VL{VN(1), VN(1000), VB(text), VB(fs[0].Payload)}, tag)
			}
			c.count(tag, true, "kind=error-close", fmt.Sprintf("text>123=%v", tl > 123))
		}
	}
	return runC06Schedules(c)
}

// (c) coarse schedule exploration on the real code with a gate-controlled transport.
func runC06Schedules(c *Ctx) error {
	iters := 250
	if !c.quick() {
		iters = 16000
	}
	apis := []string{"message", "writev", "async", "broadcast", "file", "ping", "writevasync"}
	for it := 0; it < iters; it++ {
		server := it%2 == 0
		spec := connSpec{Server: server, PMD: it%3 == 0, SrvTO: it%6 == 0, CliTO: it%6 == 0, SrvBits: 10, CliBits: 10}
		h := &recHandler{}
		conn, tap, err := spec.open(h)
		if err != nil {
			return err
		}
		gate := make(chan struct{}, 64)
		entered := make(chan int, 64)
		tap.mu.Lock()
		tap.gate, tap.gateEntered = gate, entered
		tap.mu.Unlock()
		nw := 2 + c.Rng.Intn(3)
		var wg sync.WaitGroup
		var plan []string
		results := make([]int, nw)
		start := func(i int, api string) {
			wg.Add(1)
			go func() {
				defer wg.Done()
				op := sendOp{API: api, Opcode: 2, Slices: [][]byte{[]byte(fmt.Sprintf("writer-%d-%s-payload", i, api))}}
				if api == "file" {
					op.Reader = newChunkReader([][]byte{[]byte("file-"), []byte(fmt.Sprintf("writer-%d", i))}, "sep")
				}
				if api == "ping" {
					op.Opcode = 9
				}
				var e error
				switch api {
				case "message", "ping":
					e = conn.WriteMessage(gws.Opcode(op.Opcode), joinSlices(op.Slices))
				case "writev":
					e = conn.Writev(gws.OpcodeBinary, op.Slices...)
				case "async":
					ch := make(chan error, 1)
					conn.WriteAsync(gws.OpcodeBinary, joinSlices(op.Slices), func(err error) { ch <- err })
					e = <-ch
				case "writevasync":
					ch := make(chan error, 1)
					conn.WritevAsync(gws.OpcodeBinary, op.Slices, func(err error) { ch <- err })
					e = <-ch
				case "file":
					e = conn.WriteFile(gws.OpcodeBinary, op.Reader)
				case "broadcast":
					b := gws.NewBroadcaster(gws.OpcodeBinary, joinSlices(op.Slices))
					e = b.Broadcast(conn)
					done := make(chan struct{})
					conn.Async(func() { close(done) })
					<-done
					_ = b.Close()
				}
				results[i], _ = errCode(e)
			}()
		}
		// first writer parks inside the transport; the others queue up behind the connection lock
		for i := 0; i < nw; i++ {
			api := apis[c.Rng.Intn(len(apis))]
			plan = append(plan, api)
			start(i, api)
			if i == 0 {
				select {
				case <-entered:
				case <-time.After(2 * time.Second):
				}
			}
		}
		// the closer: a local close, or a peer Close frame handled by the read loop
		peerClose := it%4 == 3
		wg.Add(1)
		closerAt := c.Rng.Intn(3)
		go func() {
			defer wg.Done()
			if closerAt > 0 {
				time.Sleep(time.Duration(closerAt*100) * time.Microsecond)
			}
			if peerClose {
				tap.feed(encodeFrame(frameSpec{Fin: true, Opcode: 8, Masked: server, Key: [4]byte{1, 2, 3, 4}, Payload: []byte{0x03, 0xe8}, DeclLen: -1}))
				tap.setEOF()
				conn.ReadLoop()
			} else {
				_ = conn.WriteClose(1000, []byte("closing"))
			}
		}()
		// release the parked writes one by one with small random pauses
		stop := make(chan struct{})
		go func() {
			for {
				select {
				case <-stop:
					return
				case <-entered:
				default:
				}
				select {
				case gate <- struct{}{}:
				case <-stop:
					return
				}
				if c.Rng.Intn(2) == 0 {
					time.Sleep(time.Duration(c.Rng.Intn(120)) * time.Microsecond)
				}
			}
		}()
		okDone := runWithTimeout(10*time.Second, wg.Wait)
		close(stop)
		tag := fmt.Sprintf("schedule it=%d server=%v pmd=%v writers=%v peerclose=%v", it, server, spec.PMD, plan, peerClose)
		replay := map[string]any{"tag": tag, "results": results, "wire": fmt.Sprintf("%x", head(tap.written(), 400))}
		if !okDone {
			c.oracleFail("writers/closer did not finish within 10 s ["+tag+"]", "schedule-hang", replay)
			continue
		}
		fs, rest, perr := parseFrames(tap.written())
		closes, after := 0, 0
		for _, f := range fs {
			if closes > 0 {
				after++
			}
			if f.Opcode == 8 {
				closes++
			}
		}
		switch {
		case perr != nil || len(rest) != 0:
			c.oracleFail("wire is not a sequence of whole frames ["+tag+"]", "schedule-wire-corrupt", replay)
		case closes > 1:
			c.oracleFail(fmt.Sprintf("%d Close frames on the wire [%s]", closes, tag), "two-close-frames", replay)
		case closes == 0:
			// the transport is healthy (writes are only delayed): whoever closed, one Close frame goes out
			c.oracleFail(fmt.Sprintf("the connection was closed (%s) while writers were busy and NO Close frame reached the wire [%s]", map[bool]string{true: "peer Close", false: "local WriteClose"}[peerClose], tag), "no-close-frame", replay)
		case after > 0:
			c.oracleFail(fmt.Sprintf("%d frame(s) written after the Close frame [%s]", after-0, tag), "frame-after-close", replay)
		}
		if n := tap.writeAfterClose; n > 0 {
			c.oracleFail(fmt.Sprintf("%d transport writes attempted after the transport was closed [%s]", n, tag), "write-after-transport-close", replay)
		}
		c.count(tag, true, "kind=schedule", fmt.Sprintf("closes=%d", closes))
	}
	return nil
}
