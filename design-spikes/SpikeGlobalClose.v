(* Design-stage feasibility spike for C06 (DESIGN.md §3.3, monitor M_close): for any number
   of threads and any consistent interleaving in which every thread keeps the monitor out of
   Bad, the wire carries at most one Close frame and no data frame after it.
   Not part of the verification machinery. *)
From Coq Require Import List Bool Arith Lia.
Import ListNotations.

Definition tid := nat.
Inductive act := ALock | AUnlock | ARead (b : bool) | ACas (b : bool) | AData | AClose | AConnClose.
Inductive wev := WData | WClose | WConnClosed.

Record mst := mk { holds : bool; chk : bool; phase : nat; isbad : bool }.
Definition m0 := mk false false 0 false.
Definition setbad (m : mst) := mk (holds m) (chk m) (phase m) true.

Definition mstep (m : mst) (a : act) : mst :=
  if isbad m then m else
  match a with
  | ALock => if holds m then setbad m else mk true false (phase m) false
  | AUnlock => if holds m then mk false false (phase m) false else setbad m
  | ARead b => if holds m && negb b then mk true true (phase m) false else m
  | ACas b => if b then mk (holds m) (chk m) 1 false else m
  | AData => if holds m && chk m then m else setbad m
  | AClose => if holds m && (phase m =? 1) then mk true false 2 false else setbad m
  | AConnClose => if (phase m =? 1) || (phase m =? 2) then mk (holds m) (chk m) 3 false else setbad m
  end.

Record gst := mkg { closed : bool; owner : option tid; log : list wev; ms : tid -> mst }.
Definition g0 := mkg false None [] (fun _ => m0).
Definition upd (f : tid -> mst) (t : tid) (m : mst) : tid -> mst :=
  fun t' => if Nat.eqb t' t then m else f t'.

Definition gstep (g : gst) (t : tid) (a : act) : option gst :=
  let f := upd (ms g) t (mstep (ms g t) a) in
  match a with
  | ALock => match owner g with None => Some (mkg (closed g) (Some t) (log g) f) | Some _ => None end
  | AUnlock => match owner g with
               | Some t' => if Nat.eqb t' t then Some (mkg (closed g) None (log g) f) else None
               | None => None end
  | ARead b => if Bool.eqb b (closed g) then Some (mkg (closed g) (owner g) (log g) f) else None
  | ACas b => if Bool.eqb b (negb (closed g)) then Some (mkg true (owner g) (log g) f) else None
  | AData => Some (mkg (closed g) (owner g) (log g ++ [WData]) f)
  | AClose => Some (mkg (closed g) (owner g) (log g ++ [WClose]) f)
  | AConnClose => Some (mkg (closed g) (owner g) (log g ++ [WConnClosed]) f)
  end.

Fixpoint gruns (g : gst) (tr : list (tid * act)) : option gst :=
  match tr with
  | [] => Some g
  | (t, a) :: r => match gstep g t a with Some g' => gruns g' r | None => None end
  end.

Definition nobad (g : gst) := forall t, isbad (ms g t) = false.

Fixpoint closes (l : list wev) : nat :=
  match l with [] => 0 | WClose :: r => S (closes r) | _ :: r => closes r end.
(* no data after a close *)
Fixpoint nda (l : list wev) : bool :=
  match l with
  | [] => true
  | WClose :: r => negb (existsb (fun e => match e with WData => true | _ => false end) r) && nda r
  | _ :: r => nda r
  end.

Lemma closes_app l e : closes (l ++ [e]) = closes l + closes [e].
Proof. induction l as [|x l IH]; simpl; [lia|]. destruct x; simpl; rewrite IH; simpl; lia. Qed.

Lemma nda_app_nodata l e : nda l = true -> e <> WData -> nda (l ++ [e]) = true.
Proof.
  induction l as [|x l IH]; intros H He; simpl in *.
  - destruct e; try reflexivity; congruence.
  - destruct x; auto. apply andb_true_iff in H. destruct H as [H1 H2].
    apply andb_true_iff. split; [|auto].
    rewrite existsb_app. rewrite negb_orb. apply andb_true_iff. split; [exact H1|].
    destruct e; try reflexivity; congruence.
Qed.

Lemma nda_app_data l : nda l = true -> closes l = 0 -> nda (l ++ [WData]) = true.
Proof.
  induction l as [|x l IH]; intros H Hc; simpl in *; [reflexivity|].
  destruct x; auto. discriminate.
Qed.

Record Inv (g : gst) : Prop := {
  Ia : forall t, holds (ms g t) = true <-> owner g = Some t;
  Ib : closed g = false -> forall t, phase (ms g t) = 0;
  Ic : forall t1 t2, phase (ms g t1) >= 1 -> phase (ms g t2) >= 1 -> t1 = t2;
  Id : closes (log g) = 0 \/ (closes (log g) = 1 /\ exists t, phase (ms g t) >= 2);
  Ie : forall t, chk (ms g t) = true -> holds (ms g t) = true /\ closes (log g) = 0;
  If_ : nda (log g) = true
}.

Lemma inv0 : Inv g0.
Proof. split; simpl; intros; try discriminate; auto; try lia. split; intro H; discriminate. Qed.

Lemma upd_same f t m : upd f t m t = m.
Proof. unfold upd. rewrite Nat.eqb_refl. reflexivity. Qed.
Lemma upd_other f t m t' : t' <> t -> upd f t m t' = f t'.
Proof. unfold upd. intro H. apply Nat.eqb_neq in H. rewrite H. reflexivity. Qed.

Ltac split_tid t' t :=
  destruct (Nat.eq_dec t' t) as [->|?]; [rewrite ?upd_same in * | rewrite ?upd_other in * by assumption].

Lemma step_inv g t a g' : Inv g -> nobad g -> gstep g t a = Some g' -> nobad g' -> Inv g'.
Proof.
  intros [HA HB HC HD HE HF] Hnb Hs Hnb'.
  pose proof (Hnb t) as Hbt. pose proof (Hnb' t) as Hbt'.
  unfold gstep in Hs. unfold mstep in *.
  destruct a; rewrite Hbt in *.
  - (* Lock *)
    destruct (owner g) eqn:Eo; [discriminate|]. inversion Hs; subst g'; clear Hs. simpl in *.
    rewrite upd_same in Hbt'.
    destruct (holds (ms g t)) eqn:Eh; [simpl in Hbt'; discriminate|].
    split; simpl.
    + intro t'. split_tid t' t; simpl.
      * split; auto.
      * split; intro H; [apply HA in H; congruence|inversion H; congruence].
    + intros Hc t'. split_tid t' t; simpl; auto.
    + intros t1 t2. split_tid t1 t; split_tid t2 t; simpl; intros; auto; try (apply HC; assumption).
    + destruct HD as [HD|[HD [t' Ht']]]; [left; exact HD|right]. split; [exact HD|].
      exists t'. split_tid t' t; simpl; auto.
    + intros t'. split_tid t' t; simpl; [discriminate|apply HE].
    + exact HF.
  - (* Unlock *)
    destruct (owner g) as [t0|] eqn:Eo; [|discriminate].
    destruct (Nat.eqb_spec t0 t) as [->|]; [|discriminate].
    inversion Hs; subst g'; clear Hs. simpl in *. rewrite upd_same in Hbt'.
    destruct (holds (ms g t)) eqn:Eh; [|simpl in Hbt'; discriminate].
    split; simpl.
    + intro t'. split_tid t' t; simpl.
      * split; discriminate.
      * split; intro H; [apply HA in H; congruence|discriminate].
    + intros Hc t'. split_tid t' t; simpl; auto.
    + intros t1 t2. split_tid t1 t; split_tid t2 t; simpl; intros; auto; try (apply HC; assumption).
    + destruct HD as [HD|[HD [t' Ht']]]; [left; exact HD|right]. split; [exact HD|].
      exists t'. split_tid t' t; simpl; auto.
    + intros t'. split_tid t' t; simpl; [discriminate|apply HE].
    + exact HF.
  - (* Read b *)
    destruct (Bool.eqb b (closed g)) eqn:Eb; [|discriminate]. apply eqb_prop in Eb. subst b.
    inversion Hs; subst g'; clear Hs. simpl in *. rewrite upd_same in Hbt'.
    destruct (holds (ms g t) && negb (closed g)) eqn:Ehc.
    + apply andb_true_iff in Ehc. destruct Ehc as [Eh Ec]. apply negb_true_iff in Ec.
      assert (Hc0 : closes (log g) = 0).
      { destruct HD as [HD|[_ [t' Ht']]]; [exact HD|]. rewrite (HB Ec t') in Ht'. lia. }
      split; simpl.
      * intro t'. split_tid t' t; simpl; [rewrite <- HA; rewrite Eh; tauto|apply HA].
      * intros _ t'. split_tid t' t; simpl; auto.
      * intros t1 t2. split_tid t1 t; split_tid t2 t; simpl; intros; auto; try (apply HC; assumption).
      * left; exact Hc0.
      * intros t'. split_tid t' t; simpl; [auto|apply HE].
      * exact HF.
    + (* no change *)
      assert (Hf : forall t', upd (ms g) t (ms g t) t' = ms g t') by (intro t'; split_tid t' t; reflexivity).
      split; simpl; intros; rewrite ?Hf in *; auto.
      destruct HD as [HD|[HD [t' Ht']]]; [left; auto|right; split; auto; exists t'; rewrite Hf; auto].
  - (* Cas b *)
    destruct (Bool.eqb b (negb (closed g))) eqn:Eb; [|discriminate]. apply eqb_prop in Eb. subst b.
    inversion Hs; subst g'; clear Hs. simpl in *. rewrite upd_same in Hbt'.
    destruct (closed g) eqn:Ec; simpl in *.
    + assert (Hf : forall t', upd (ms g) t (ms g t) t' = ms g t') by (intro t'; split_tid t' t; reflexivity).
      split; simpl; intros; rewrite ?Hf in *; auto; try discriminate.
      destruct HD as [HD|[HD [t' Ht']]]; [left; auto|right; split; auto; exists t'; rewrite Hf; auto].
    + pose proof (HB eq_refl) as H0.
      split; simpl.
      * intro t'. split_tid t' t; simpl; apply HA.
      * discriminate.
      * intros t1 t2. split_tid t1 t; split_tid t2 t; simpl; intros; auto;
          try (rewrite H0 in *; lia).
      * left. destruct HD as [HD|[_ [t' Ht']]]; [exact HD|]. rewrite H0 in Ht'. lia.
      * intros t'. split_tid t' t; simpl; apply HE.
      * exact HF.
  - (* Data *)
    inversion Hs; subst g'; clear Hs. simpl in *. rewrite upd_same in Hbt'.
    destruct (holds (ms g t) && chk (ms g t)) eqn:Ehc; [|simpl in Hbt'; discriminate].
    apply andb_true_iff in Ehc. destruct Ehc as [Eh Ek].
    destruct (HE t Ek) as [_ Hc0].
    assert (Hf : forall t', upd (ms g) t (ms g t) t' = ms g t') by (intro t'; split_tid t' t; reflexivity).
    split; simpl; intros; rewrite ?Hf in *; rewrite ?closes_app; simpl; rewrite ?Nat.add_0_r; auto.
    apply nda_app_data; assumption.
  - (* Close *)
    inversion Hs; subst g'; clear Hs. simpl in *. rewrite upd_same in Hbt'.
    destruct (holds (ms g t) && (phase (ms g t) =? 1)) eqn:Ehp; [|simpl in Hbt'; discriminate].
    apply andb_true_iff in Ehp. destruct Ehp as [Eh Ep]. apply Nat.eqb_eq in Ep.
    assert (Hc0 : closes (log g) = 0).
    { destruct HD as [HD|[_ [t' Ht']]]; [exact HD|].
      assert (t' = t) by (apply HC; lia). subst. lia. }
    split; simpl.
    + intro t'. split_tid t' t; simpl; [rewrite <- HA; rewrite Eh; tauto|apply HA].
    + intros Hc t'. rewrite (HB Hc t) in Ep. discriminate.
    + intros t1 t2. split_tid t1 t; split_tid t2 t; simpl; intros; auto;
        try (apply HC; lia).
    + right. rewrite closes_app, Hc0. simpl. split; [reflexivity|]. exists t. rewrite upd_same. simpl. lia.
    + intros t'. split_tid t' t; simpl; [discriminate|].
      intro Hk. destruct (HE t' Hk) as [Hh _]. apply HA in Hh. apply HA in Eh. congruence.
    + apply nda_app_nodata; [exact HF|discriminate].
  - (* ConnClose *)
    inversion Hs; subst g'; clear Hs. simpl in *. rewrite upd_same in Hbt'.
    destruct ((phase (ms g t) =? 1) || (phase (ms g t) =? 2)) eqn:Ep; [|simpl in Hbt'; discriminate].
    apply orb_true_iff in Ep. rewrite !Nat.eqb_eq in Ep.
    split; simpl.
    + intro t'. split_tid t' t; simpl; apply HA.
    + intros Hc t'. rewrite (HB Hc t) in Ep. lia.
    + intros t1 t2. split_tid t1 t; split_tid t2 t; simpl; intros; auto;
        try (apply HC; lia).
    + rewrite closes_app. simpl. rewrite Nat.add_0_r.
      destruct HD as [HD|[HD [t' Ht']]]; [left; exact HD|right]. split; [exact HD|].
      exists t'. split_tid t' t; simpl; lia.
    + intros t'. rewrite closes_app. simpl. rewrite Nat.add_0_r. split_tid t' t; simpl; apply HE.
    + apply nda_app_nodata; [exact HF|discriminate].
Qed.

Lemma mstep_bad m a : isbad m = true -> isbad (mstep m a) = true.
Proof. intro H. unfold mstep. rewrite H. exact H. Qed.

Lemma step_nobad_back g t a g' : gstep g t a = Some g' -> nobad g' -> nobad g.
Proof.
  intros Hs Hn t'. specialize (Hn t').
  assert (Hm : ms g' = upd (ms g) t (mstep (ms g t) a)).
  { unfold gstep in Hs. destruct a; repeat match type of Hs with
      | context [match ?x with _ => _ end] => destruct x; try discriminate end;
      inversion Hs; reflexivity. }
  rewrite Hm in Hn. destruct (Nat.eq_dec t' t) as [->|Hne].
  - rewrite upd_same in Hn. destruct (isbad (ms g t)) eqn:E; [|reflexivity].
    rewrite (mstep_bad _ a E) in Hn. discriminate.
  - rewrite upd_other in Hn by assumption. exact Hn.
Qed.

Lemma runs_nobad_back : forall tr g1 g, gruns g1 tr = Some g -> nobad g -> nobad g1.
Proof.
  induction tr as [|[t a] tr IH]; intros g1 g Hr Hn; simpl in Hr.
  - inversion Hr; subst. exact Hn.
  - destruct (gstep g1 t a) as [g2|] eqn:Es; [|discriminate].
    eapply step_nobad_back; [exact Es|]. eapply IH; eauto.
Qed.

Lemma runs_inv : forall tr g1 g, Inv g1 -> gruns g1 tr = Some g -> nobad g -> Inv g.
Proof.
  induction tr as [|[t a] tr IH]; intros g1 g HI Hr Hn; simpl in Hr.
  - inversion Hr; subst. exact HI.
  - destruct (gstep g1 t a) as [g2|] eqn:Es; [|discriminate].
    pose proof (runs_nobad_back _ _ _ Hr Hn) as Hn2.
    pose proof (step_nobad_back _ _ _ _ Es Hn2) as Hn1.
    eapply IH; [|exact Hr|exact Hn]. eapply step_inv; eauto.
Qed.

Theorem one_close_nothing_after : forall tr g,
  gruns g0 tr = Some g -> nobad g ->
  closes (log g) <= 1 /\ nda (log g) = true.
Proof.
  intros tr g Hr Hn. destruct (runs_inv tr g0 g inv0 Hr Hn) as [_ _ _ HD _ HF].
  split; [|exact HF]. destruct HD as [->|[-> _]]; lia.
Qed.
Print Assumptions one_close_nothing_after.
