(* Design-stage feasibility spike for C20: arena deque (index-linked list, free-slot stack,
   sentinel slot 0, blank freed slots, auto-reset) refines a plain list. Proves the two
   representative operations: PushBack (both getElement branches: grow and slot reuse) and
   Remove by live handle (all four unlink cases, auto-reset at length zero).
   Not part of the verification machinery. *)
From stdpp Require Import list.

Section D.
Context {V : Type} (zero : V).

Record elem := Elem { eprev : nat; eaddr : nat; enext : nat; evalue : V }.
Definition blank := Elem 0 0 0 zero.
Record dq := Dq { head : nat; tail : nat; len : nat; stack : list nat; elems : list elem }.

Definition upd (es : list elem) (a : nat) (f : elem -> elem) : list elem :=
  match es !! a with Some e => <[a := f e]> es | None => es end.
Definition set_prev p e := Elem p (eaddr e) (enext e) (evalue e).
Definition set_next n e := Elem (eprev e) (eaddr e) n (evalue e).
Definition set_addr a e := Elem (eprev e) a (enext e) (evalue e).
Definition set_value v e := Elem (eprev e) (eaddr e) (enext e) v.

Definition hd_or (n : nat) (l : list (nat * V)) := match l with [] => n | (a, _) :: _ => a end.
Definition last_or (p : nat) (l : list (nat * V)) := match last l with None => p | Some (a, _) => a end.

(* list segment: entered from [p], left towards [n] *)
Fixpoint lseg (es : list elem) (p : nat) (l : list (nat * V)) (n : nat) : Prop :=
  match l with
  | [] => True
  | (a, v) :: r => a <> 0 /\ es !! a = Some (Elem p a (hd_or n r) v) /\ lseg es a r n
  end.

Lemma hd_or_app n l1 l2 : hd_or n (l1 ++ l2) = hd_or (hd_or n l2) l1.
Proof. by destruct l1 as [|[]]. Qed.
Lemma last_or_cons p a v l : last_or p ((a, v) :: l) = last_or a l.
Proof.
  unfold last_or. destruct l as [|[b w] r]; [done|]. rewrite last_cons_cons.
  destruct (last ((b, w) :: r)) as [[]|] eqn:E; [done|]. by apply last_None in E.
Qed.
Lemma last_or_snoc p l a v : last_or p (l ++ [(a, v)]) = a.
Proof. unfold last_or. by rewrite last_snoc. Qed.

Lemma lseg_app es p l1 l2 n :
  lseg es p (l1 ++ l2) n <-> lseg es p l1 (hd_or n l2) /\ lseg es (last_or p l1) l2 n.
Proof.
  revert p. induction l1 as [|[a v] r IH]; intro p; simpl.
  - unfold last_or; simpl. tauto.
  - rewrite hd_or_app, last_or_cons, IH. tauto.
Qed.

Lemma lseg_frame es p l n a e : a ∉ l.*1 -> lseg es p l n -> lseg (<[a := e]> es) p l n.
Proof.
  revert p. induction l as [|[b v] r IH]; intros p Hn Hl; simpl in *; [done|].
  destruct Hl as (Hb & He & Hr). apply not_elem_of_cons in Hn as [Hab Hn].
  split; [done|]. split; [|by apply IH]. by rewrite list_lookup_insert_ne.
Qed.

Lemma lseg_lt es p l n a : lseg es p l n -> a ∈ l.*1 -> a < length es /\ a <> 0.
Proof.
  revert p. induction l as [|[b v] r IH]; intros p Hl Ha; simpl in *; [by apply elem_of_nil in Ha|].
  destruct Hl as (Hb & He & Hr). apply elem_of_cons in Ha as [->|Ha].
  - split; [by eapply lookup_lt_Some|done].
  - by eapply IH.
Qed.

(* change where the segment's last element points *)
Lemma lseg_retarget es p l n n' :
  l <> [] -> NoDup (l.*1) -> lseg es p l n ->
  lseg (upd es (last_or p l) (set_next n')) p l n'.
Proof.
  intros Hne Hnd Hl. destruct (exists_last Hne) as [l' [[b w] ->]]. clear Hne.
  rewrite last_or_snoc. rewrite fmap_app in Hnd. apply NoDup_app in Hnd as (_ & Hdis & _).
  apply lseg_app in Hl as [H1 H2]. simpl in H1, H2. destruct H2 as (Hb & He & _).
  unfold upd. rewrite He. apply lseg_app. simpl. split.
  - apply lseg_frame; [|done]. intro Hin. apply (Hdis b Hin). simpl. apply elem_of_list_singleton. done.
  - split; [done|]. split; [|done]. rewrite list_lookup_insert by (by eapply lookup_lt_Some). done.
Qed.

Record repr (d : dq) (l : list (nat * V)) : Prop := {
  r_nodup : NoDup (l.*1);
  r_lseg : lseg (elems d) 0 l 0;
  r_head : head d = hd_or 0 l;
  r_tail : tail d = last_or 0 l;
  r_len : len d = length l;
  r_sent : 0 < length (elems d);
  r_free_nodup : NoDup (stack d);
  r_free_blank : forall a, a ∈ stack d -> a <> 0 /\ elems d !! a = Some blank;
  r_disj : forall a, a ∈ stack d -> a ∉ l.*1;
  r_cover : forall a, 0 < a < length (elems d) -> a ∈ stack d \/ a ∈ l.*1
}.

(* getElement on a deque whose arena already has the sentinel *)
Definition get_element (d : dq) : dq * nat :=
  match stack d with
  | a :: st => (Dq (head d) (tail d) (len d) st (upd (elems d) a (set_addr a)), a)
  | [] => let a := length (elems d) in
          (Dq (head d) (tail d) (len d) [] (upd (elems d ++ [blank]) a (set_addr a)), a)
  end.

Definition push_back (d : dq) (v : V) : dq * nat :=
  let '(d1, a) := get_element d in
  let es1 := upd (elems d1) a (set_value v) in
  if decide (tail d1 = 0)
  then (Dq a a (S (len d1)) (stack d1) es1, a)
  else let es2 := upd es1 (tail d1) (set_next a) in
       let es3 := upd es2 a (set_prev (tail d1)) in
       (Dq (head d1) a (S (len d1)) (stack d1) es3, a).

(* getElement hands out a blank slot with its address set, outside the live list *)
Lemma get_element_spec d l :
  repr d l ->
  let '(d1, a) := get_element d in
  a <> 0 /\ a ∉ l.*1 /\ elems d1 !! a = Some (Elem 0 a 0 zero) /\
  lseg (elems d1) 0 l 0 /\ head d1 = head d /\ tail d1 = tail d /\ len d1 = len d /\
  NoDup (stack d1) /\ a ∉ stack d1 /\
  (forall b, b ∈ stack d1 -> b <> 0 /\ elems d1 !! b = Some blank /\ b ∉ l.*1) /\
  (forall b, 0 < b < length (elems d1) -> b = a \/ b ∈ stack d1 \/ b ∈ l.*1).
Proof.
  intros [Hnd Hl Hh Ht Hn Hs Hfn Hfb Hdj Hcv]. unfold get_element.
  destruct (stack d) as [|a st] eqn:Est; simpl.
  - (* grow *)
    set (a := length (elems d)).
    assert (Hal : a ∉ l.*1).
    { intro Hin. destruct (lseg_lt _ _ _ _ _ Hl Hin) as [Hlt _]. unfold a in Hlt. lia. }
    assert (Hlk : (elems d ++ [blank]) !! a = Some blank).
    { unfold a. rewrite lookup_app_r by lia. by rewrite Nat.sub_diag. }
    unfold upd. rewrite Hlk. simpl.
    split; [unfold a; lia|]. split; [done|]. split.
    { rewrite list_lookup_insert; [done|]. rewrite app_length. simpl. unfold a. lia. }
    split.
    { apply lseg_frame; [done|]. clear -Hl. revert Hl. generalize 0 at 1 3. generalize 0.
      induction l as [|[b v] r IH]; intros n p Hl; simpl in *; [done|].
      destruct Hl as (Hb & He & Hr). split; [done|]. split; [|by apply IH].
      by apply lookup_app_l_Some. }
    split; [done|]. split; [done|]. split; [done|].
    split; [apply NoDup_nil_2|]. split; [apply not_elem_of_nil|]. split.
    + intros b Hb. by apply elem_of_nil in Hb.
    + intros b Hb. rewrite insert_length, app_length in Hb. simpl in Hb.
      destruct (decide (b = a)) as [->|Hne]; [by left|]. right.
      destruct (Hcv b) as [Hin|Hin]; [unfold a in Hne; lia| |by right].
      by apply elem_of_nil in Hin.
  - (* reuse *)
    assert (Ha : a ∈ a :: st) by left.
    destruct (Hfb a Ha) as [Ha0 Hab]. pose proof (Hdj a Ha) as Hal.
    apply NoDup_cons in Hfn as [Hast Hfn'].
    unfold upd. rewrite Hab. simpl.
    split; [done|]. split; [done|]. split.
    { rewrite list_lookup_insert; [done|]. by eapply lookup_lt_Some. }
    split; [by apply lseg_frame|].
    split; [done|]. split; [done|]. split; [done|].
    split; [done|]. split; [done|]. split.
    + intros b Hb. destruct (Hfb b) as [Hb0 Hbb]; [by right|].
      split; [done|]. split; [|apply Hdj; by right].
      rewrite list_lookup_insert_ne; [done|]. by intros ->.
    + intros b Hb. rewrite insert_length in Hb.
      destruct (Hcv b Hb) as [Hin|Hin]; [|by right; right].
      apply elem_of_cons in Hin as [->|Hin]; [by left|by right; left].
Qed.

Theorem push_back_repr d l v :
  repr d l ->
  let '(d', a) := push_back d v in repr d' (l ++ [(a, v)]) /\ a ∉ l.*1.
Proof.
  intros Hr. pose proof (get_element_spec d l Hr) as Hg. unfold push_back.
  destruct (get_element d) as [d1 a].
  destruct Hg as (Ha0 & Hal & Hlk & Hl & Hh & Ht & Hn & Hfn & Hast & Hfree & Hcv).
  destruct Hr as [Hnd _ Hh0 Ht0 Hn0 _ _ _ _ _].
  assert (Hlen_a : a < length (elems d1)) by (by eapply lookup_lt_Some).
  assert (Hes1 : upd (elems d1) a (set_value v) = <[a := Elem 0 a 0 v]> (elems d1))
    by (unfold upd; by rewrite Hlk).
  assert (Hnd' : NoDup ((l ++ [(a, v)]).*1)).
  { rewrite fmap_app. apply NoDup_app. split; [done|]. split.
    - intros x Hx Hx'. simpl in Hx'. apply elem_of_list_singleton in Hx'. by subst.
    - simpl. apply NoDup_singleton. }
  destruct (decide (tail d1 = 0)) as [Ht1|Ht1].
  - (* empty deque *)
    assert (l = []) as ->.
    { rewrite Ht, Ht0 in Ht1. destruct l as [|x l0] using rev_ind; [done|]. destruct x as [b w].
      rewrite last_or_snoc in Ht1. subst b.
      apply lseg_app in Hl as [_ Hl]. simpl in Hl. by destruct Hl. }
    split; [|done]. rewrite Hes1. simpl. split; simpl; try done.
    + split; [done|]. split; [|done]. by rewrite list_lookup_insert.
    + by rewrite Hn, Hn0.
    + rewrite insert_length. lia.
    + intros b Hb. destruct (Hfree b Hb) as (Hb0 & Hbb & _). split; [done|].
      rewrite list_lookup_insert_ne; [done|]. by intros ->.
    + intros b Hb. apply not_elem_of_cons. split; [by intros ->|apply not_elem_of_nil].
    + intros b Hb. rewrite insert_length in Hb. destruct (Hcv b Hb) as [->|[Hin|Hin]].
      * right. by left.
      * by left.
      * by apply elem_of_nil in Hin.
  - (* non-empty: patch old tail, then the new slot *)
    assert (Hne : l <> []) by (intros ->; apply Ht1; by rewrite Ht, Ht0).
    split; [|done].
    assert (Htl : tail d1 = last_or 0 l) by (by rewrite Ht, Ht0).
    set (t := tail d1) in *.
    assert (Htin : t ∈ l.*1).
    { rewrite Htl. destruct (exists_last Hne) as [l' [[b w] ->]]. rewrite last_or_snoc.
      rewrite fmap_app. apply elem_of_app. right. by left. }
    assert (Hta : t <> a) by (by intros ->).
    rewrite Hes1.
    (* step 1: the old list still a segment after writing slot a *)
    assert (H1 : lseg (<[a := Elem 0 a 0 v]> (elems d1)) 0 l 0) by (by apply lseg_frame).
    (* step 2: retarget the tail's next to a *)
    pose proof (lseg_retarget _ 0 l 0 a Hne Hnd H1) as H2. rewrite <- Htl in H2.
    set (es2 := upd (<[a := Elem 0 a 0 v]> (elems d1)) t (set_next a)) in *.
    assert (Hlen2 : length es2 = length (elems d1)).
    { unfold es2, upd. destruct (_ !! t); by rewrite ?insert_length. }
    assert (Ha2 : es2 !! a = Some (Elem 0 a 0 v)).
    { unfold es2, upd. destruct (<[a:=_]> (elems d1) !! t) eqn:E.
      - rewrite list_lookup_insert_ne by done. by rewrite list_lookup_insert.
      - by rewrite list_lookup_insert. }
    assert (Hes3 : upd es2 a (set_prev t) = <[a := Elem t a 0 v]> es2) by (unfold upd; by rewrite Ha2).
    rewrite Hes3.
    split; simpl; try done.
    + apply lseg_app. split.
      * simpl. by apply lseg_frame.
      * simpl. rewrite <- Htl. split; [done|]. split; [|done].
        rewrite list_lookup_insert; [done|]. by rewrite Hlen2.
    + rewrite hd_or_app. rewrite Hh, Hh0. by destruct l as [|[]].
    + by rewrite last_or_snoc.
    + rewrite app_length. simpl. rewrite Hn, Hn0. lia.
    + rewrite insert_length, Hlen2. lia.
    + intros b Hb. destruct (Hfree b Hb) as (Hb0 & Hbb & Hbl). split; [done|].
      rewrite list_lookup_insert_ne by (by intros ->).
      unfold es2, upd. destruct (<[a:=_]> (elems d1) !! t) eqn:E.
      * rewrite list_lookup_insert_ne by (intros ->; done).
        rewrite list_lookup_insert_ne by (by intros ->). done.
      * rewrite list_lookup_insert_ne by (by intros ->). done.
    + intros b Hb. rewrite fmap_app. apply not_elem_of_app. split.
      * by apply Hfree.
      * simpl. apply not_elem_of_cons. split; [by intros ->|apply not_elem_of_nil].
    + intros b Hb. rewrite insert_length, Hlen2 in Hb. rewrite fmap_app.
      destruct (Hcv b Hb) as [->|[Hin|Hin]].
      * right. apply elem_of_app. right. by left.
      * by left.
      * right. apply elem_of_app. by left.
Qed.

(* ---- Remove(addr) for a live handle: doRemove + putElement + autoReset ---- *)
Definition remove (d : dq) (a : nat) : dq :=
  match elems d !! a with
  | None => d
  | Some e =>
      let p := eprev e in let n := enext e in
      let es1 := if decide (p = 0) then elems d else upd (elems d) p (set_next n) in
      let es2 := if decide (n = 0) then es1 else upd es1 n (set_prev p) in
      let h := if decide (p = 0) then n else head d in
      let t := if decide (n = 0) then p else tail d in
      let es3 := <[a := blank]> es2 in
      if decide (len d - 1 = 0) then Dq 0 0 0 [] (take 1 es3)
      else Dq h t (len d - 1) (a :: stack d) es3
  end.

Lemma upd_length es a f : length (upd es a f) = length es.
Proof. unfold upd. destruct (es !! a); by rewrite ?insert_length. Qed.

Lemma upd_lookup_ne es a f b : a <> b -> upd es a f !! b = es !! b.
Proof. intro H. unfold upd. destruct (es !! a); [by rewrite list_lookup_insert_ne|done]. Qed.

Lemma lseg_frame_upd es p l n a f : a ∉ l.*1 -> lseg es p l n -> lseg (upd es a f) p l n.
Proof. intros Ha Hl. unfold upd. destruct (es !! a); [by apply lseg_frame|done]. Qed.

(* change where the segment is entered from *)
Lemma lseg_resource es p l n p' :
  l <> [] -> NoDup (l.*1) -> lseg es p l n ->
  lseg (upd es (hd_or n l) (set_prev p')) p' l n.
Proof.
  intros Hne Hnd Hl. destruct l as [|[b w] r]; [done|]. simpl in *.
  apply NoDup_cons in Hnd as [Hbr _]. destruct Hl as (Hb & He & Hr).
  unfold upd. rewrite He. split; [done|]. split.
  - rewrite list_lookup_insert by (by eapply lookup_lt_Some). done.
  - by apply lseg_frame.
Qed.

Lemma lseg_hd_ne es p l n : lseg es p l n -> l <> [] -> hd_or n l <> 0.
Proof. destruct l as [|[b w] r]; [done|]. simpl. by intros (Hb & _) _. Qed.
Lemma lseg_last_ne es p l n : lseg es p l n -> l <> [] -> last_or p l <> 0.
Proof.
  intros Hl Hne. destruct (exists_last Hne) as [l' [[b w] ->]]. rewrite last_or_snoc.
  apply lseg_app in Hl as [_ Hl]. simpl in Hl. by destruct Hl.
Qed.
Lemma hd_or_in n l : l <> [] -> hd_or n l ∈ l.*1.
Proof. destruct l as [|[b w] r]; [done|]. intros _. by left. Qed.
Lemma last_or_in p l : l <> [] -> last_or p l ∈ l.*1.
Proof.
  intros Hne. destruct (exists_last Hne) as [l' [[b w] ->]]. rewrite last_or_snoc.
  rewrite fmap_app. apply elem_of_app. right. by left.
Qed.

Theorem remove_repr d l1 a v l2 :
  repr d (l1 ++ (a, v) :: l2) -> repr (remove d a) (l1 ++ l2).
Proof.
  intros [Hnd Hl Hh Ht Hn Hs Hfn Hfb Hdj Hcv].
  rewrite fmap_app, fmap_cons in Hnd. simpl in Hnd.
  apply NoDup_app in Hnd as (Hnd1 & Hdis & Hnd2). apply NoDup_cons in Hnd2 as [Ha2 Hnd2].
  assert (Ha1 : a ∉ l1.*1) by (intro Hin; apply (Hdis a Hin); by left).
  assert (Hdis12 : forall x, x ∈ l1.*1 -> x ∉ l2.*1) by (intros x Hx Hx2; apply (Hdis x Hx); by right).
  apply lseg_app in Hl as [Hl1 Hl2]. simpl in Hl1, Hl2. destruct Hl2 as (Ha0 & Hea & Hl2).
  set (p := last_or 0 l1) in *. set (n := hd_or 0 l2) in *.
  unfold remove. rewrite Hea. simpl. fold p n.
  assert (Hp0 : p = 0 <-> l1 = []).
  { split; [|by intros ->]. intro Hp. destruct l1 as [|x l1']; [done|]. exfalso.
    by apply (lseg_last_ne _ _ _ _ Hl1). }
  assert (Hn0 : n = 0 <-> l2 = []).
  { split; [|by intros ->]. intro Hn'. destruct l2 as [|x l2']; [done|]. exfalso.
    by apply (lseg_hd_ne _ _ _ _ Hl2). }
  set (es1 := if decide (p = 0) then elems d else upd (elems d) p (set_next n)).
  set (es2 := if decide (n = 0) then es1 else upd es1 n (set_prev p)).
  assert (Hlen2 : length es2 = length (elems d)).
  { unfold es2, es1. repeat case_decide; by rewrite ?upd_length. }
  (* the two segments after relinking, before blanking slot a *)
  assert (Hs1 : lseg es2 0 l1 n).
  { unfold es2, es1. destruct (decide (p = 0)) as [Hp|Hp].
    - apply Hp0 in Hp. subst l1. done.
    - assert (Hne1 : l1 <> []) by (intro E; apply Hp; by apply Hp0).
      pose proof (lseg_retarget _ 0 l1 a n Hne1 Hnd1 Hl1) as H. fold p in H.
      case_decide; [done|]. apply lseg_frame_upd; [|done].
      intro Hin. apply (Hdis12 n Hin). apply hd_or_in. intro E. by apply Hn0 in E. }
  assert (Hs2 : lseg es2 p l2 0).
  { unfold es2. destruct (decide (n = 0)) as [Hn'|Hn'].
    - apply Hn0 in Hn'. subst l2. done.
    - assert (Hne2 : l2 <> []) by (intro E; apply Hn'; by apply Hn0).
      assert (Hl2' : lseg es1 a l2 0).
      { unfold es1. case_decide; [done|]. apply lseg_frame_upd; [|done].
        intro Hin. apply (Hdis12 p); [|done]. apply last_or_in. intro E. by apply Hp0 in E. }
      pose proof (lseg_resource _ a l2 0 p Hne2 Hnd2 Hl2') as H. by fold n in H. }
  assert (Hnd' : NoDup ((l1 ++ l2).*1)).
  { rewrite fmap_app. apply NoDup_app. split; [done|]. split; [exact Hdis12|done]. }
  assert (Hal : a ∉ (l1 ++ l2).*1).
  { rewrite fmap_app. apply not_elem_of_app. done. }
  assert (Hseg : lseg (<[a := blank]> es2) 0 (l1 ++ l2) 0).
  { apply lseg_app. split; apply lseg_frame; done. }
  assert (Halt : a < length es2) by (rewrite Hlen2; by eapply lookup_lt_Some).
  rewrite app_length in Hn. simpl in Hn.
  destruct (decide (len d - 1 = 0)) as [Hz|Hz].
  - (* became empty: autoReset *)
    assert (l1 = [] /\ l2 = []) as [-> ->].
    { destruct l1, l2; simpl in *; try done; lia. }
    simpl. split; simpl; try done; try apply NoDup_nil_2;
      try (intros b Hb; by apply elem_of_nil in Hb).
    + rewrite take_length, insert_length. lia.
    + intros b Hb. rewrite take_length in Hb. lia.
  - split; simpl; try done.
    + rewrite hd_or_app. destruct (decide (p = 0)) as [Hp|Hp].
      * apply Hp0 in Hp. subst l1. done.
      * rewrite Hh, hd_or_app. destruct l1 as [|[] ?]; [|done]. exfalso. by apply Hp, Hp0.
    + destruct (decide (n = 0)) as [Hn'|Hn'].
      * apply Hn0 in Hn'. subst l2. by rewrite app_nil_r.
      * rewrite Ht. assert (Hne2 : l2 <> []) by (intro E; apply Hn'; by apply Hn0).
        destruct (exists_last Hne2) as [l2' [[b w] ->]].
        rewrite (app_assoc l1), last_or_snoc.
        change ((a, v) :: l2' ++ [(b, w)]) with (((a, v) :: l2') ++ [(b, w)]).
        by rewrite (app_assoc l1), last_or_snoc.
    + rewrite app_length. lia.
    + rewrite insert_length, Hlen2. done.
    + apply NoDup_cons. split; [|done]. intro Hin. apply (Hdj a Hin).
      rewrite fmap_app. apply elem_of_app. right. by left.
    + intros b Hb. apply elem_of_cons in Hb as [->|Hb].
      * split; [done|]. by rewrite list_lookup_insert.
      * destruct (Hfb b Hb) as [Hb0 Hbb]. split; [done|].
        assert (Hbl : b ∉ (l1 ++ (a, v) :: l2).*1) by (by apply Hdj).
        rewrite fmap_app, fmap_cons in Hbl. simpl in Hbl.
        apply not_elem_of_app in Hbl as [Hb1 Hb2]. apply not_elem_of_cons in Hb2 as [Hba Hb2].
        rewrite list_lookup_insert_ne by done.
        unfold es2, es1. repeat case_decide; rewrite ?upd_lookup_ne; try done.
        all: try (intros <-; apply Hb2; apply hd_or_in; intro E; by apply Hn0 in E).
        all: try (intros <-; apply Hb1; apply last_or_in; intro E; by apply Hp0 in E).
    + intros b Hb. apply elem_of_cons in Hb as [->|Hb]; [done|].
      assert (Hbl : b ∉ (l1 ++ (a, v) :: l2).*1) by (by apply Hdj).
      rewrite fmap_app, fmap_cons in Hbl. simpl in Hbl.
      apply not_elem_of_app in Hbl as [Hb1 Hb2]. apply not_elem_of_cons in Hb2 as [_ Hb2].
      rewrite fmap_app. by apply not_elem_of_app.
    + intros b Hb. rewrite insert_length, Hlen2 in Hb.
      destruct (Hcv b Hb) as [Hin|Hin]; [left; by right|].
      rewrite fmap_app, fmap_cons in Hin. simpl in Hin.
      apply elem_of_app in Hin as [Hin|Hin].
      * right. rewrite fmap_app. apply elem_of_app. by left.
      * apply elem_of_cons in Hin as [->|Hin]; [left; by left|].
        right. rewrite fmap_app. apply elem_of_app. by right.
Qed.
End D.
Print Assumptions push_back_repr.
Print Assumptions remove_repr.
