(* Design-stage feasibility spike for the skeleton framework (DESIGN.md §3.3):
   a reflective checker over a structured IR and a monitor automaton, with its
   soundness theorem. Not part of the verification machinery. *)
From Coq Require Import List Bool Arith Lia.
Import ListNotations.

Section Checker.
Variable act : Type.
Variable mstate : Type.
Variable mstate_eqb : mstate -> mstate -> bool.
Hypothesis mstate_eqb_spec : forall a b, mstate_eqb a b = true <-> a = b.
Variable mstep : mstate -> act -> mstate.
Variable bad : mstate -> bool.
Hypothesis bad_absorbing : forall m a, bad m = true -> bad (mstep m a) = true.

Inductive stmt :=
| Skip | Act (a : act) | Seq (s1 s2 : stmt) | Choice (s1 s2 : stmt) | Loop (s : stmt).

Inductive exec : stmt -> list act -> Prop :=
| ESkip : exec Skip []
| EAct a : exec (Act a) [a]
| ESeq s1 s2 t1 t2 : exec s1 t1 -> exec s2 t2 -> exec (Seq s1 s2) (t1 ++ t2)
| EChL s1 s2 t : exec s1 t -> exec (Choice s1 s2) t
| EChR s1 s2 t : exec s2 t -> exec (Choice s1 s2) t
| ELoop0 s : exec (Loop s) []
| ELoopS s t1 t2 : exec s t1 -> exec (Loop s) t2 -> exec (Loop s) (t1 ++ t2).

Definition run (m : mstate) (t : list act) : mstate := fold_left mstep t m.

Definition mem (m : mstate) (X : list mstate) : bool := existsb (mstate_eqb m) X.
Definition subset (A B : list mstate) : bool := forallb (fun m => mem m B) A.

Lemma mem_In m X : mem m X = true <-> In m X.
Proof.
  unfold mem. rewrite existsb_exists. split.
  - intros [x [Hx He]]. apply mstate_eqb_spec in He. subst. exact Hx.
  - intro H. exists m. split; [exact H|]. apply mstate_eqb_spec. reflexivity.
Qed.

Lemma subset_incl A B : subset A B = true -> incl A B.
Proof.
  unfold subset. rewrite forallb_forall. intros H x Hx. apply mem_In. apply H. exact Hx.
Qed.

Lemma incl_subset A B : incl A B -> subset A B = true.
Proof.
  intro H. unfold subset. apply forallb_forall. intros x Hx. apply mem_In. apply H. exact Hx.
Qed.

Fixpoint close (f : list mstate -> option (list mstate)) (fuel : nat) (X : list mstate)
  : option (list mstate) :=
  match fuel with
  | O => None
  | S fuel1 =>
      match f X with
      | None => None
      | Some Y => if subset Y X then Some X else close f fuel1 (Y ++ X)
      end
  end.

Variable fuel0 : nat.

Fixpoint post (s : stmt) (X : list mstate) : option (list mstate) :=
  match s with
  | Skip => Some X
  | Act a => Some (map (fun m => mstep m a) X)
  | Seq s1 s2 => match post s1 X with Some X1 => post s2 X1 | None => None end
  | Choice s1 s2 =>
      match post s1 X, post s2 X with
      | Some A, Some B => Some (A ++ B)
      | _, _ => None
      end
  | Loop s1 => close (post s1) fuel0 X
  end.

Definition check (s : stmt) (m0 : mstate) : bool :=
  match post s [m0] with
  | Some X => forallb (fun m => negb (bad m)) X
  | None => false
  end.

Lemma close_spec f : forall fuel X R,
  close f fuel X = Some R ->
  incl X R /\ exists Y, f R = Some Y /\ incl Y R.
Proof.
  induction fuel as [|fuel IH]; intros X R H; simpl in H; [discriminate|].
  destruct (f X) as [Y|] eqn:Ef; [|discriminate].
  destruct (subset Y X) eqn:Es.
  - inversion H; subst. split; [apply incl_refl|]. exists Y. split; [exact Ef|].
    apply subset_incl; exact Es.
  - apply IH in H. destruct H as [Hi Hr]. split; [|exact Hr].
    intros x Hx. apply Hi. apply in_or_app. right. exact Hx.
Qed.

Lemma close_fix f fuel R Y : fuel <> 0 -> f R = Some Y -> incl Y R -> close f fuel R = Some R.
Proof.
  intros Hf Hr Hi. destruct fuel as [|fuel]; [congruence|]. simpl. rewrite Hr.
  rewrite (incl_subset _ _ Hi). reflexivity.
Qed.

Lemma run_app m t1 t2 : run m (t1 ++ t2) = run (run m t1) t2.
Proof. unfold run. apply fold_left_app. Qed.

Lemma post_sound s : forall t, exec s t -> forall X R m,
  post s X = Some R -> In m X -> In (run m t) R.
Proof.
  intros t H. induction H; intros X R m HP Hm; simpl in HP.
  - inversion HP; subst. exact Hm.
  - inversion HP; subst. unfold run; simpl. apply (in_map (fun x => mstep x a)). exact Hm.
  - destruct (post s1 X) as [X1|] eqn:E1; [|discriminate].
    rewrite run_app. eapply IHexec2; [exact HP|]. eapply IHexec1; [exact E1|exact Hm].
  - destruct (post s1 X) as [A|] eqn:E1; [|discriminate].
    destruct (post s2 X) as [B|] eqn:E2; [|discriminate].
    inversion HP; subst. apply in_or_app. left. eapply IHexec; eauto.
  - destruct (post s1 X) as [A|] eqn:E1; [|discriminate].
    destruct (post s2 X) as [B|] eqn:E2; [|discriminate].
    inversion HP; subst. apply in_or_app. right. eapply IHexec; eauto.
  - apply close_spec in HP. destruct HP as [Hi _]. apply Hi. exact Hm.
  - assert (Hfuel : fuel0 <> 0) by (intro E; rewrite E in HP; discriminate).
    apply close_spec in HP. destruct HP as [Hi [Y [Hf Hr]]].
    rewrite run_app.
    assert (Hin : In (run m t1) R).
    { apply Hr. eapply IHexec1; [exact Hf|]. apply Hi. exact Hm. }
    eapply IHexec2; [|exact Hin]. simpl. eapply close_fix; eauto.
Qed.

Lemma bad_run m t : bad m = true -> bad (run m t) = true.
Proof.
  revert m. induction t as [|a t IH]; intros m H; simpl; [exact H|].
  apply IH. apply bad_absorbing. exact H.
Qed.

(* every prefix of every complete thread-local trace keeps the monitor out of Bad *)
Theorem check_sound s m0 : check s m0 = true ->
  forall t, exec s t -> forall p q, t = p ++ q -> bad (run m0 p) = false.
Proof.
  unfold check. intros Hc t He p q ->.
  destruct (post s [m0]) as [R|] eqn:EP; [|discriminate].
  assert (Hin : In (run m0 (p ++ q)) R) by (eapply post_sound; eauto; left; reflexivity).
  rewrite forallb_forall in Hc. specialize (Hc _ Hin).
  destruct (bad (run m0 p)) eqn:Eb; [|reflexivity].
  rewrite run_app in Hc. rewrite (bad_run _ q Eb) in Hc. discriminate.
Qed.

End Checker.
Print Assumptions check_sound.

(* toy instance: a write outside the lock is rejected by computation *)
Inductive A := Lock | Unlock | Write.
Inductive M := Free | Held | Bad.
Definition Meqb a b := match a, b with Free, Free | Held, Held | Bad, Bad => true | _, _ => false end.
Definition Mstep m a := match m, a with
  | Free, Lock => Held | Held, Unlock => Free | Held, Write => Held | _, _ => Bad end.
Definition Mbad m := match m with Bad => true | _ => false end.
Definition good := Seq A (Act A Lock) (Seq A (Loop A (Choice A (Act A Write) (Skip A))) (Act A Unlock)).
Definition buggy := Seq A (Act A Write) good.
Example toy : (check A M Meqb Mstep Mbad 5 good Free, check A M Meqb Mstep Mbad 5 buggy Free) = (true, false).
Proof. vm_compute. reflexivity. Qed.
