(* Design-stage feasibility spike for C18: the only bit-level fact the masking
   proof needs (xor of little-endian words = byte-wise xor). Not part of the
   verification machinery. *)
From Coq Require Import List NArith Lia Bool.
From Coq Require Import ZifyN ZifyNat ZifyBool.
Import ListNotations.
Open Scope N_scope.

Lemma small_testbit_high u n : u < 2 ^ 8 -> 8 <= n -> N.testbit u n = false.
Proof.
  intros Hu Hn. destruct (N.eq_dec u 0) as [->|Hu0]; [apply N.bits_0|].
  apply N.bits_above_log2.
  assert (N.log2 u < 8) by (apply N.log2_lt_pow2; lia). lia.
Qed.

Lemma digit_as_lor u v : u < 2 ^ 8 -> u + 2 ^ 8 * v = N.lor u (N.shiftl v 8).
Proof.
  intro Hu. rewrite N.shiftl_mul_pow2, (N.mul_comm v).
  rewrite <- N.lxor_lor, <- N.add_nocarry_lxor; try reflexivity;
  (apply N.bits_inj; intro n; rewrite N.land_spec, N.bits_0;
   destruct (N.ltb_spec n 8);
   [ rewrite (N.mul_comm _ v), N.mul_pow2_bits_low by lia; apply andb_false_r
   | rewrite small_testbit_high by lia; reflexivity ]).
Qed.

Lemma testbit_digit u v n : u < 2 ^ 8 ->
  N.testbit (u + 2 ^ 8 * v) n = if n <? 8 then N.testbit u n else N.testbit v (n - 8).
Proof.
  intro Hu. rewrite digit_as_lor by assumption. rewrite N.lor_spec.
  destruct (N.ltb_spec n 8).
  - rewrite N.shiftl_spec_low by lia. apply orb_false_r.
  - rewrite N.shiftl_spec_high' by lia. rewrite small_testbit_high by lia. reflexivity.
Qed.

Lemma lxor_cons x y a b : x < 2 ^ 8 -> y < 2 ^ 8 ->
  N.lxor (x + 2 ^ 8 * a) (y + 2 ^ 8 * b) = N.lxor x y + 2 ^ 8 * N.lxor a b.
Proof.
  intros Hx Hy.
  assert (Hxy : N.lxor x y < 2 ^ 8).
  { destruct (N.eq_dec (N.lxor x y) 0) as [->|Hn]; [reflexivity|].
    apply N.log2_lt_pow2; [lia|].
    eapply N.le_lt_trans; [apply N.log2_lxor|].
    apply N.max_lub_lt.
    - destruct (N.eq_dec x 0) as [->|]; [reflexivity|apply N.log2_lt_pow2; lia].
    - destruct (N.eq_dec y 0) as [->|]; [reflexivity|apply N.log2_lt_pow2; lia]. }
  apply N.bits_inj; intro n.
  rewrite N.lxor_spec, !testbit_digit by assumption.
  destruct (n <? 8); rewrite N.lxor_spec; reflexivity.
Qed.

Definition wf_bytes (l : list N) := Forall (fun b => b < 2 ^ 8) l.

Fixpoint le_load (bs : list N) : N :=
  match bs with [] => 0 | b :: r => b + 2 ^ 8 * le_load r end.

Fixpoint le_store (k : nat) (v : N) : list N :=
  match k with O => [] | S k' => (v mod 2 ^ 8) :: le_store k' (v / 2 ^ 8) end.

Fixpoint xor_list (a b : list N) : list N :=
  match a, b with x :: a', y :: b' => N.lxor x y :: xor_list a' b' | _, _ => [] end.

Lemma le_load_xor a : forall b, wf_bytes a -> wf_bytes b -> length a = length b ->
  N.lxor (le_load a) (le_load b) = le_load (xor_list a b).
Proof.
  induction a as [|x a IH]; intros [|y b] Ha Hb Hl; cbn [le_load xor_list length] in *; try discriminate; auto.
  inversion Ha; inversion Hb; subst.
  rewrite lxor_cons by assumption. rewrite IH; auto.
Qed.

Lemma le_store_load a : wf_bytes a -> le_store (length a) (le_load a) = a.
Proof.
  induction 1 as [|x a Hx Ha IH]; cbn [le_load le_store length]; [reflexivity|].
  assert (P : 2 ^ 8 <> 0) by (intro E; discriminate E).
  f_equal.
  - rewrite (N.mul_comm (2 ^ 8)), N.mod_add by exact P. apply N.mod_small; assumption.
  - rewrite (N.mul_comm (2 ^ 8)), N.div_add by exact P. rewrite N.div_small by assumption. rewrite N.add_0_l. exact IH.
Qed.
Print Assumptions le_store_load.
Print Assumptions le_load_xor.
