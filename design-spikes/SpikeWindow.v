(* Design-stage feasibility spike for C17: slideWindow.Write with Go copy/append and checked
   slice expressions never panics and keeps dict = last n bytes of everything written.
   Not part of the verification machinery. *)
From Coq Require Import List Bool Arith Lia.
Import ListNotations.

Section W.
Variable A : Type.

Definition lastn (n : nat) (l : list A) : list A := skipn (length l - n) l.

(* Go slice expression l[lo:hi] on a slice whose len = cap: panics unless lo <= hi <= len *)
Definition slice (lo hi : nat) (l : list A) : option (list A) :=
  if (lo <=? hi) && (hi <=? length l) then Some (firstn (hi - lo) (skipn lo l)) else None.

(* Go copy(dst, src): overwrites the first min(len dst, len src) elements of dst *)
Definition copy (dst src : list A) : list A :=
  firstn (length dst) src ++ skipn (length src) dst.

Lemma copy_full dst src : length dst = length src -> copy dst src = src.
Proof. intro H. unfold copy. rewrite H, firstn_all, skipn_all2 by lia. apply app_nil_r. Qed.

Record sw := { enabled : bool; size : nat; dict : list A }.

Definition obind {X Y} (o : option X) (f : X -> option Y) : option Y :=
  match o with Some x => f x | None => None end.

(* mirrors slideWindow.Write; None = runtime panic *)
Definition sw_write (w : sw) (p : list A) : option sw :=
  if negb (enabled w) then Some w else
  let n := length p in
  let len := length (dict w) in
  if n + len <=? size w then Some {| enabled := true; size := size w; dict := dict w ++ p |}
  else
    let m := size w - len in
    obind (if 0 <? m
           then obind (slice 0 m p) (fun hd => obind (slice m (length p) p) (fun tl =>
                  Some (dict w ++ hd, tl)))
           else Some (dict w, p)) (fun '(d1, p1) =>
    let n1 := length p1 in
    if size w <=? n1
    then obind (slice (n1 - size w) n1 p1) (fun src =>
           Some {| enabled := true; size := size w; dict := copy d1 src |})
    else
      obind (slice n1 (length d1) d1) (fun src1 =>
      let d2 := copy d1 src1 in
      obind (slice (size w - n1) (length d2) d2) (fun dst2 =>
      Some {| enabled := true; size := size w;
              dict := firstn (size w - n1) d2 ++ copy dst2 p1 |}))).

Definition Good (w : sw) (hist : list A) : Prop :=
  enabled w = true /\ dict w = lastn (size w) hist.

Lemma lastn_length n l : length (lastn n l) = Nat.min n (length l).
Proof. unfold lastn. rewrite skipn_length. lia. Qed.

Lemma lastn_all n l : length l <= n -> lastn n l = l.
Proof. intro H. unfold lastn. replace (length l - n) with 0 by lia. reflexivity. Qed.

Lemma skipn_app_le n (l1 l2 : list A) : n <= length l1 -> skipn n (l1 ++ l2) = skipn n l1 ++ l2.
Proof. intro H. rewrite skipn_app. replace (n - length l1) with 0 by lia. reflexivity. Qed.

Lemma skipn_app_ge n (l1 l2 : list A) : length l1 <= n -> skipn n (l1 ++ l2) = skipn (n - length l1) l2.
Proof. intro H. rewrite skipn_app. rewrite (skipn_all2 l1) by lia. reflexivity. Qed.

Lemma skipn_skipn' a b (l : list A) : skipn a (skipn b l) = skipn (a + b) l.
Proof.
  revert l. induction b as [|b IH]; intro l; simpl.
  - rewrite Nat.add_0_r. reflexivity.
  - destruct l as [|x l]; [rewrite !skipn_nil; reflexivity|].
    rewrite Nat.add_succ_r. simpl. apply IH.
Qed.

Lemma lastn_app_lastn n (h p : list A) : lastn n (lastn n h ++ p) = lastn n (h ++ p).
Proof.
  unfold lastn. rewrite !app_length, skipn_length.
  destruct (Nat.le_gt_cases (length h) n) as [Hle|Hgt].
  - replace (length h - n) with 0 by lia. cbn [skipn]. rewrite Nat.sub_0_r. reflexivity.
  - replace (length h - (length h - n)) with n by lia.
    destruct (Nat.le_gt_cases n (length p)) as [Hp|Hp].
    + rewrite skipn_app_ge by (rewrite skipn_length; lia).
      rewrite skipn_app_ge by lia. rewrite skipn_length. f_equal. lia.
    + rewrite skipn_app_le by (rewrite skipn_length; lia).
      rewrite skipn_app_le by lia. rewrite skipn_skipn'. f_equal. f_equal. lia.
Qed.

(* the main step: Write never panics and keeps "dict = suffix of history" *)
Lemma sw_write_good w hist p : Good w hist ->
  exists w', sw_write w p = Some w' /\ Good w' (hist ++ p) /\ size w' = size w.
Proof.
  intros [He Hd]. unfold sw_write. rewrite He. cbn [negb].
  assert (Hlen : length (dict w) = Nat.min (size w) (length hist)) by (rewrite Hd; apply lastn_length).
  destruct (Nat.leb_spec (length p + length (dict w)) (size w)) as [Hfit|Hover].
  - eexists. split; [reflexivity|]. split; [|reflexivity]. split; [reflexivity|]. cbn [dict size].
    rewrite Hd. rewrite <- lastn_app_lastn. apply eq_sym, lastn_all.
    rewrite app_length. rewrite <- Hd. lia.
  - (* overflow *)
    set (m := size w - length (dict w)).
    assert (Hstep1 : exists d1 p1,
      (if 0 <? m then obind (slice 0 m p) (fun hd => obind (slice m (length p) p) (fun tl => Some (dict w ++ hd, tl)))
       else Some (dict w, p)) = Some (d1, p1)
      /\ d1 ++ p1 = dict w ++ p /\ length d1 = size w).
    { destruct (Nat.ltb_spec 0 m) as [Hm|Hm].
      - unfold slice. replace (0 <=? m) with true by (symmetry; apply Nat.leb_le; lia).
        replace (m <=? length p) with true by (symmetry; apply Nat.leb_le; lia).
        replace (m <=? length p) with true by (symmetry; apply Nat.leb_le; lia).
        rewrite Nat.leb_refl. cbn [andb obind]. eexists _, _. split; [reflexivity|].
        rewrite Nat.sub_0_r. cbn [skipn]. split.
        + rewrite <- app_assoc. f_equal. rewrite (firstn_all2 (skipn m p)) by (rewrite skipn_length; lia).
          apply firstn_skipn.
        + rewrite app_length, firstn_length. lia.
      - eexists _, _. split; [reflexivity|]. split; [reflexivity|]. lia. }
    destruct Hstep1 as [d1 [p1 [-> [Happ Hl1]]]]. cbn [obind].
    assert (Hgoal : lastn (size w) (hist ++ p) = lastn (size w) (d1 ++ p1))
      by (rewrite Happ, Hd; symmetry; apply lastn_app_lastn).
    destruct (Nat.leb_spec (size w) (length p1)) as [Hbig|Hsmall].
    + unfold slice. replace (length p1 - size w <=? length p1) with true by (symmetry; apply Nat.leb_le; lia).
      rewrite Nat.leb_refl. cbn [andb obind]. eexists. split; [reflexivity|]. split; [|reflexivity].
      split; [reflexivity|]. cbn [dict size]. rewrite Hgoal. unfold copy, lastn.
      rewrite firstn_length, skipn_length.
      rewrite (skipn_all2 d1) by lia. rewrite app_nil_r.
      rewrite firstn_all2 by (rewrite firstn_length, skipn_length; lia).
      rewrite firstn_all2 by (rewrite skipn_length; lia).
      rewrite app_length, skipn_app_ge by lia. f_equal. lia.
    + unfold slice at 1.
      replace (length p1 <=? length d1) with true by (symmetry; apply Nat.leb_le; lia).
      rewrite Nat.leb_refl. cbn [andb obind].
      set (src1 := firstn (length d1 - length p1) (skipn (length p1) d1)).
      assert (Hs1 : src1 = skipn (length p1) d1)
        by (unfold src1; apply firstn_all2; rewrite skipn_length; lia).
      assert (Hc1 : copy d1 src1 = skipn (length p1) d1 ++ skipn (length d1 - length p1) d1).
      { unfold copy. rewrite Hs1, skipn_length. f_equal.
        apply firstn_all2. rewrite skipn_length. lia. }
      assert (Hl2 : length (copy d1 src1) = size w).
      { rewrite Hc1, app_length, !skipn_length. lia. }
      unfold slice. rewrite Hl2.
      replace (size w - length p1 <=? size w) with true by (symmetry; apply Nat.leb_le; lia).
      rewrite Nat.leb_refl. cbn [andb obind].
      eexists. split; [reflexivity|]. split; [|reflexivity]. split; [reflexivity|]. cbn [dict size].
      rewrite Hgoal. unfold lastn. rewrite app_length.
      rewrite skipn_app_le by lia. replace (length d1 + length p1 - size w) with (length p1) by lia.
      rewrite Hc1.
      rewrite firstn_app. rewrite skipn_length.
      replace (size w - length p1 - (length d1 - length p1)) with 0 by lia. cbn [firstn]. rewrite app_nil_r.
      rewrite firstn_all2 by (rewrite skipn_length; lia).
      f_equal.
      apply copy_full. rewrite firstn_length, skipn_length, app_length, !skipn_length. lia.
Qed.

Fixpoint writes (w : sw) (ps : list (list A)) : option sw :=
  match ps with [] => Some w | p :: r => obind (sw_write w p) (fun w' => writes w' r) end.

Lemma writes_good : forall ps w hist, Good w hist -> exists w', writes w ps = Some w'
            /\ dict w' = lastn (size w) (hist ++ concat ps).
Proof.
  induction ps as [|p ps IH]; intros w hist HG; cbn [writes concat].
  - exists w. split; [reflexivity|]. rewrite app_nil_r. apply HG.
  - destruct (sw_write_good w hist p HG) as [w' [-> [HG' Hs]]]. cbn [obind].
    destruct (IH w' (hist ++ p) HG') as [w'' [Hw Hd]]. exists w''. split; [exact Hw|].
    rewrite Hd, Hs, app_assoc. reflexivity.
Qed.

Theorem sw_suffix n ps :
  exists w, writes {| enabled := true; size := n; dict := [] |} ps = Some w
            /\ dict w = lastn n (concat ps).
Proof.
  destruct (writes_good ps {| enabled := true; size := n; dict := [] |} []) as [w [Hw Hd]].
  - split; reflexivity.
  - exists w. split; [exact Hw|exact Hd].
Qed.
End W.
Print Assumptions sw_suffix.
